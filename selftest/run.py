#!/usr/bin/env python3
"""Self-test of the checkers: applies each edit of selftest/corpus.py to a
scratch copy of /repo's working tree and runs the named property checks
against it.  Mutants must be flagged (exit 1), behaviour-preserving twins
must stay silent (exit 0).  Not part of the registered checks.

usage: selftest/run.py [-k substring] [-j jobs] [--props C04,C01]
"""
import argparse
import os
import shutil
import subprocess
import sys
import tempfile
from concurrent.futures import ThreadPoolExecutor

HERE = os.path.dirname(os.path.abspath(__file__))
VERIF = os.path.dirname(HERE)
sys.path.insert(0, HERE)
from corpus import CORPUS  # noqa


def make_copy(dst):
    os.makedirs(dst)
    for name in os.listdir('/repo'):
        if name in ('.git', '.benchmarks', '__pycache__', 'data',
                    'data_exact'):
            continue
        src = os.path.join('/repo', name)
        if os.path.isdir(src):
            shutil.copytree(src, os.path.join(dst, name),
                            ignore=shutil.ignore_patterns('__pycache__'))
        else:
            shutil.copy2(src, dst)


def rename_in_function(src, qualname, old, new):
    """Renames identifier `old` to `new` inside the function `qualname`
    (Class.method or function) of the source text."""
    import ast
    import re
    tree = ast.parse(src)
    target = None
    parts = qualname.split('.')

    def find(body, parts):
        for n in body:
            if isinstance(n, (ast.FunctionDef, ast.ClassDef)) and \
                    n.name == parts[0]:
                if len(parts) == 1:
                    return n
                return find(n.body, parts[1:])
            if isinstance(n, ast.If):
                r = find(n.body, parts)
                if r is not None:
                    return r
        return None
    if qualname == '<main>':
        for n in tree.body:
            if isinstance(n, ast.If) and isinstance(n.test, ast.Compare):
                target = n
    else:
        target = find(tree.body, parts)
    if target is None:
        return None
    lines = src.split('\n')
    lo, hi = target.lineno - 1, target.end_lineno
    pat = re.compile(r'(?<![\w.])%s(?!\w)' % re.escape(old))
    cnt = 0
    for i in range(lo, hi):
        lines[i], k = pat.subn(new, lines[i])
        cnt += k
    if cnt == 0:
        return None
    return '\n'.join(lines)


def apply(entry, root):
    edits = entry['edits']
    for ed in edits:
        if len(ed) == 5 and ed[0] == 'rename':
            _, file, qual, old, new = ed
            p = os.path.join(root, file)
            out = rename_in_function(open(p).read(), qual, old, new)
            if out is None:
                return 'rename does not apply: %s %s %s' % (file, qual, old)
            open(p, 'w').write(out)
            continue
        file, old, new = ed
        p = os.path.join(root, file)
        s = open(p).read()
        n = s.count(old)
        if n != 1:
            return 'edit does not apply uniquely (%d matches) in %s: %r' % (
                n, file, old[:50])
        open(p, 'w').write(s.replace(old, new))
    # must still compile
    for ed in edits:
        file = ed[1] if ed[0] == 'rename' else ed[0]
        r = subprocess.run(['python3-vt', '-m', 'py_compile',
                            os.path.join(root, file)], capture_output=True)
        if r.returncode != 0:
            return 'mutant does not compile: %s' % r.stderr.decode()[-200:]
    return None


def run_one(entry, base, only_props):
    root = os.path.join(base, entry['id'])
    make_copy(root)
    err = apply(entry, root)
    results = []
    if err:
        shutil.rmtree(root, ignore_errors=True)
        return entry, [('-', 'BROKEN-ENTRY', err)]
    expect = entry.get('expect', 'flag')
    for prop in entry['props']:
        if only_props and prop not in only_props:
            continue
        env = dict(os.environ, STBEM_OUT=os.path.join(root, '_out'))
        r = subprocess.run(
            ['python3-vt', '-m', 'stbem_static', prop, '--repo', root],
            cwd=VERIF, capture_output=True, text=True, env=env)
        rc = r.returncode
        want = 1 if expect == 'flag' else 0
        status = 'ok' if rc == want else 'MISS' if expect == 'flag' else \
            'FALSE-ALARM'
        if rc == 2:
            status = 'ok' if expect == 'noalarm' else 'ANALYSIS-ERROR'
        lines = [l for l in r.stdout.splitlines()
                 if l.startswith('  ') and ' at ' in l and 'rule ' not in l]
        if rc == 2:
            lines = [l for l in r.stdout.splitlines() if 'ANALYSIS-ERROR' in l]
        rule = entry.get('rule')
        if status == 'ok' and expect == 'flag' and rule and not any(
                rule in l for l in lines):
            status = 'ok-other-rule'
        results.append((prop, status, ' | '.join(l.strip()[:150]
                                                 for l in lines[:2])))
    shutil.rmtree(root, ignore_errors=True)
    return entry, results


def main():
    ap = argparse.ArgumentParser()
    ap.add_argument('-k', default=None)
    ap.add_argument('-j', type=int, default=16)
    ap.add_argument('--props', default=None)
    ap.add_argument('-v', action='store_true')
    args = ap.parse_args()
    only = set(args.props.split(',')) if args.props else None
    entries = [e for e in CORPUS if not args.k or args.k in e['id']]
    if only:
        entries = [e for e in entries if only & set(e['props'])]
    base = tempfile.mkdtemp(prefix='stbem_selftest_')
    bad = 0
    try:
        with ThreadPoolExecutor(args.j) as ex:
            for entry, results in ex.map(
                    lambda e: run_one(e, base, only), entries):
                for prop, status, info in results:
                    good = status in ('ok', 'ok-other-rule')
                    if not good:
                        bad += 1
                    if args.v or not good or status == 'ok-other-rule':
                        print('%-14s %-34s %-4s %s' %
                              (status, entry['id'], prop, info))
    finally:
        shutil.rmtree(base, ignore_errors=True)
    n = sum(len(e['props']) for e in entries)
    print('selftest: %d entries, %d runs, %d not as expected' %
          (len(entries), n, bad))
    return 1 if bad else 0


if __name__ == '__main__':
    sys.exit(main())
