"""Self-test corpus: edits on a scratch copy (DESIGN.md Appendix G numbering
where it applies).  expect='flag' (default): every listed property check must
exit 1; expect='silent': behaviour-preserving twin, must exit 0."""

SL = 'src/single_layer.py'
SLX = 'src/single_layer_exact.py'
QR = 'src/quadrature_rules.py'
Q = 'src/quadrature.py'
M = 'src/mesh.py'
EE = 'src/error_estimator.py'
IP = 'src/initial_potential.py'
IM = 'src/initial_mesh.py'
N = 'src/norms.py'
P = 'src/parametrization.py'
HH = 'src/h_h2_error_estimator.py'
HI = 'src/hierarchical_error_estimator.py'
EX = 'example.py'
PR = 'problems.py'

CORPUS = []


def m(id, props, *edits, rule=None, expect='flag'):
    CORPUS.append(dict(id=id, props=list(props), edits=list(edits),
                       rule=rule, expect=expect))


# ---- C05 ------------------------------------------------------------------
m('c05-digit15', ['C05'],
  (QR, '0.08829686513765301175959513851848532315174',
   '0.08829686513765401175959513851848532315174'), rule='E1-literal')
m('c05-digit25', ['C05'],
  (QR, '0.08829686513765301175959513851848532315174',
   '0.08829686513765301175959514851848532315174'), rule='E1-literal')
m('c05-digit41-twin', ['C05'],
  (QR, '0.08829686513765301175959513851848532315174',
   '0.08829686513765301175959513851848532315184'), expect='silent')
m('c05-noreturn', ['C05'],
  (QR, """    elif N == 12:
        return ((""", """    elif N == 12:
        (("""), rule='E1-returned')
m('c05-key-removed', ['C05'],
  (QR, 'elif lvls == (7, 3):', 'elif lvls == (7, 33):'),
  rule='E1-exported-key')
m('c05-constructor-map', ['C05'],
  (Q, """    assert (N_poly % 2 != 0)
    N = (N_poly + 1) // 2
    nodes, weights = gauss_sqrtinv_quadrature_rule(N)""",
   """    assert (N_poly % 2 != 0)
    N = N_poly // 2
    nodes, weights = gauss_sqrtinv_quadrature_rule(N)"""),
  rule='E1-constructor-map')
m('c05-weights-swapped', ['C05'],
  (Q, """    nodes, weights = gauss_x_quadrature_rule(N)
    return QuadScheme1D(nodes, weights)""",
   """    nodes, weights = gauss_x_quadrature_rule(N)
    return QuadScheme1D(weights, nodes)"""), rule='E1-constructor-wrap')

# ---- C04 ------------------------------------------------------------------
m('c04-bilform-lt', ['C04'],
  (SL, """        if elem_test.time_interval[1] <= elem_trial.time_interval[0]:
            return 0
""", """        if elem_test.time_interval[1] < elem_trial.time_interval[0]:
            return 0
"""), rule='R-exit-complete')
m('c04-bilform-idx', ['C04'],
  (SL, """        if elem_test.time_interval[1] <= elem_trial.time_interval[0]:
            return 0
""", """        if elem_test.time_interval[0] <= elem_trial.time_interval[0]:
            return 0
"""), rule='R-exit-sound')
m('c04-mpcol-lt-twin', ['C04'],
  (SL, """        if elem_test.time_interval[1] <= elem_trial.time_interval[0]:
            continue""",
   """        if elem_test.time_interval[1] < elem_trial.time_interval[0]:
            continue"""), expect='silent')
m('c04-mpcol-ge', ['C04'],
  (SL, """        if elem_test.time_interval[1] <= elem_trial.time_interval[0]:
            continue""",
   """        if elem_test.time_interval[1] >= elem_trial.time_interval[0]:
            continue"""), rule='R-exit-sound')
m('c04-potential-lt', ['C04'],
  (SL, "        if t <= elem_trial.time_interval[0]: return 0\n\n        # Calculate the time integrated kernel.\n        G_time = time_integrated_kernel",
   "        if t < elem_trial.time_interval[0]: return 0\n\n        # Calculate the time integrated kernel.\n        G_time = time_integrated_kernel"),
  rule='R-exit-complete')
m('c04-evaluate-closure-lt', ['C04', 'C07'],
  (SL, "                if t <= b:\n                    return -FPI_INV * expi(-xy / (4 * (t - a)))",
   "                if t < b:\n                    return -FPI_INV * expi(-xy / (4 * (t - a)))"),
  rule='R-posdiff')
m('c04-evaluate-tail-lt', ['C04', 'C07'],
  (SL, "        if t <= t_b:\n            vec =", "        if t < t_b:\n            vec ="),
  rule='R-posdiff')
m('c04-dtik-ge', ['C04', 'C01'],
  (SL, "        if b > d:\n            z = b - d", "        if b >= d:\n            z = b - d"),
  rule='R-posdiff')
m('c04-g-lt', ['C04'],
  (SL, '    """ Returns g_z for z = a - b. """\n    if a <= b:',
   '    """ Returns g_z for z = a - b. """\n    if a < b:'), rule='R-posdiff')
m('c04-residual-ge', ['C04', 'C03'],
  (EE, "if t <= elem_trial.time_interval[0]: continue",
   "if t <= elem_trial.time_interval[1]: continue"), rule='R-exit-sound')
m('c04-se1-ge', ['C04', 'C07'],
  (SLX, "    if t > b:\n        result -= (2 * sqrt(pi)",
   "    if t >= b:\n        result -= (2 * sqrt(pi)"), rule='R-posdiff')
m('c04-fint1-lt', ['C04'],
  (SLX, '    """ Returns integrate f_z(x-y) for x,y in [0,h]^2. """\n    if a <= b:',
   '    """ Returns integrate f_z(x-y) for x,y in [0,h]^2. """\n    if a < b:'),
  rule='R-posdiff')
m('c04-mirror-twin', ['C04'],
  (SL, "        if elem_test.time_interval[1] <= elem_trial.time_interval[0]:\n            return 0\n",
   "        if elem_trial.time_interval[0] >= elem_test.time_interval[1]:\n            return 0\n"),
  expect='silent')
m('c04-drop-term', ['C04', 'C01'],
  (SL, """        if a > d:
            z = a - d
            result -= FPI_INV * (z * np.exp(-x_sqr / z) +
                                 (x_sqr + z) * expi(-x_sqr / z))

""", "\n"), rule='R-fourterm')
m('c04-flip-sign', ['C04', 'C01'],
  (SL, """            z = b - c
            result -= FPI_INV""", """            z = b - c
            result += FPI_INV"""), rule='R-fourterm')
m('c04-wrong-z', ['C04', 'C01'],
  (SL, """        if b > c:
            z = b - c""", """        if b > c:
            z = b - d"""), rule='R-fourterm')
m('c04-body-sign', ['C04', 'C01'],
  (SL, """            z = a - c
            result += FPI_INV * (z * np.exp(-x_sqr / z) +
                                 (x_sqr + z) * expi(-x_sqr / z))""",
   """            z = a - c
            result += FPI_INV * (z * np.exp(-x_sqr / z) +
                                 (x_sqr - z) * expi(-x_sqr / z))"""),
  rule='K2')
m('c04-g-factor', ['C04', 'C01'],
  (SL, "return lambda x: FPI_INV * expi(-np.sum(x**2, axis=0) / (4 * z))",
   "return lambda x: FPI_INV * expi(-np.sum(x**2, axis=0) / (2 * z))"),
  rule='K1')
m('c04-mat-transposed-inline', ['C04', 'C17'],
  (SL, """            for i, elem_test in enumerate(elems_test):
                for j, elem_trial in enumerate(elems_trial):
                    mat[i, j] = self.bilform(elem_trial, elem_test)
            return mat""", """            for i, elem_test in enumerate(elems_test):
                for j, elem_trial in enumerate(elems_trial):
                    mat[j, i] = self.bilform(elem_trial, elem_test)
            return mat"""), rule='R-index')
m('c04-bilform-args-swapped', ['C04', 'C17'],
  (SL, """            for i, elem_test in enumerate(elems_test):
                for j, elem_trial in enumerate(elems_trial):
                    mat[i, j] = self.bilform(elem_trial, elem_test)
        else:""", """            for i, elem_test in enumerate(elems_test):
                for j, elem_trial in enumerate(elems_trial):
                    mat[i, j] = self.bilform(elem_test, elem_trial)
        else:"""), rule='R-index')
m('c04-pool-row', ['C04', 'C17'],
  (SL, "                mat[:, j] = col", "                mat[j, :] = col"),
  rule='R-index')
m('c04-sik-sign', ['C04', 'C01'],
  (SLX, """    f_da = fint_2(a, d, h, k)
    return f_bd - f_bc + f_ca - f_da""", """    f_da = fint_2(a, d, h, k)
    return f_bd - f_bc + f_ca + f_da"""), rule='R-fourterm')
m('c04-sik-args', ['C04', 'C01'],
  (SLX, "    f_ca = fint_2(a, c, h, k)", "    f_ca = fint_2(c, a, h, k)"),
  rule='R-fourterm')
m('c04-helper-twin', ['C04'],
  (SL, """        x_sqr = np.sum(x**2, axis=0) / 4
        result = 0
        if b > d:
            z = b - d
            result += FPI_INV * (z * np.exp(-x_sqr / z) +
                                 (x_sqr + z) * expi(-x_sqr / z))""",
   """        x_sqr = np.sum(x**2, axis=0) / 4
        result = 0
        if d < b:
            z = b - d
            result += FPI_INV * ((x_sqr + z) * expi(-x_sqr / z) +
                                 z * np.exp(-x_sqr / z))"""),
  expect='silent')
