"""Self-test corpus: edits on a scratch copy (DESIGN.md Appendix G numbering
where it applies).  expect='flag' (default): every listed property check must
exit 1; expect='silent': behaviour-preserving twin, must exit 0."""

SL = 'src/single_layer.py'
SLX = 'src/single_layer_exact.py'
QR = 'src/quadrature_rules.py'
Q = 'src/quadrature.py'
M = 'src/mesh.py'
EE = 'src/error_estimator.py'
IP = 'src/initial_potential.py'
IM = 'src/initial_mesh.py'
N = 'src/norms.py'
P = 'src/parametrization.py'
HH = 'src/h_h2_error_estimator.py'
HI = 'src/hierarchical_error_estimator.py'
EX = 'example.py'
PR = 'problems.py'

CORPUS = []


def m(id, props, *edits, rule=None, expect='flag'):
    CORPUS.append(dict(id=id, props=list(props), edits=list(edits),
                       rule=rule, expect=expect))


# ---- C05 ------------------------------------------------------------------
m('c05-digit15', ['C05'],
  (QR, '0.08829686513765301175959513851848532315174',
   '0.08829686513765401175959513851848532315174'), rule='E1-literal')
m('c05-digit25', ['C05'],
  (QR, '0.08829686513765301175959513851848532315174',
   '0.08829686513765301175959514851848532315174'), rule='E1-literal')
m('c05-digit41-twin', ['C05'],
  (QR, '0.08829686513765301175959513851848532315174',
   '0.08829686513765301175959513851848532315184'), expect='silent')
m('c05-noreturn', ['C05'],
  (QR, """    elif N == 12:
        return ((""", """    elif N == 12:
        (("""), rule='E1-returned')
m('c05-key-removed', ['C05'],
  (QR, 'elif lvls == (7, 3):', 'elif lvls == (7, 33):'),
  rule='E1-exported-key')
m('c05-constructor-map', ['C05'],
  (Q, """    assert (N_poly % 2 != 0)
    N = (N_poly + 1) // 2
    nodes, weights = gauss_sqrtinv_quadrature_rule(N)""",
   """    assert (N_poly % 2 != 0)
    N = N_poly // 2
    nodes, weights = gauss_sqrtinv_quadrature_rule(N)"""),
  rule='E1-constructor-map')
m('c05-weights-swapped', ['C05'],
  (Q, """    nodes, weights = gauss_x_quadrature_rule(N)
    return QuadScheme1D(nodes, weights)""",
   """    nodes, weights = gauss_x_quadrature_rule(N)
    return QuadScheme1D(weights, nodes)"""), rule='E1-constructor-wrap')

# ---- C04 ------------------------------------------------------------------
m('c04-bilform-lt', ['C04'],
  (SL, """        if elem_test.time_interval[1] <= elem_trial.time_interval[0]:
            return 0
""", """        if elem_test.time_interval[1] < elem_trial.time_interval[0]:
            return 0
"""), rule='R-exit-complete')
m('c04-bilform-idx', ['C04'],
  (SL, """        if elem_test.time_interval[1] <= elem_trial.time_interval[0]:
            return 0
""", """        if elem_test.time_interval[0] <= elem_trial.time_interval[0]:
            return 0
"""), rule='R-exit-sound')
m('c04-mpcol-lt-twin', ['C04'],
  (SL, """        if elem_test.time_interval[1] <= elem_trial.time_interval[0]:
            continue""",
   """        if elem_test.time_interval[1] < elem_trial.time_interval[0]:
            continue"""), expect='silent')
m('c04-mpcol-ge', ['C04'],
  (SL, """        if elem_test.time_interval[1] <= elem_trial.time_interval[0]:
            continue""",
   """        if elem_test.time_interval[1] >= elem_trial.time_interval[0]:
            continue"""), rule='R-exit-sound')
m('c04-potential-lt', ['C04'],
  (SL, "        if t <= elem_trial.time_interval[0]: return 0\n\n        # Calculate the time integrated kernel.\n        G_time = time_integrated_kernel",
   "        if t < elem_trial.time_interval[0]: return 0\n\n        # Calculate the time integrated kernel.\n        G_time = time_integrated_kernel"),
  rule='R-exit-complete')
m('c04-evaluate-closure-lt', ['C04', 'C07'],
  (SL, "                if t <= b:\n                    return -FPI_INV * expi(-xy / (4 * (t - a)))",
   "                if t < b:\n                    return -FPI_INV * expi(-xy / (4 * (t - a)))"),
  rule='R-posdiff')
m('c04-evaluate-tail-lt', ['C04', 'C07'],
  (SL, "        if t <= t_b:\n            vec =", "        if t < t_b:\n            vec ="),
  rule='R-posdiff')
m('c04-dtik-ge', ['C04', 'C01'],
  (SL, "        if b > d:\n            z = b - d", "        if b >= d:\n            z = b - d"),
  rule='R-posdiff')
m('c04-g-lt', ['C04'],
  (SL, '    """ Returns g_z for z = a - b. """\n    if a <= b:',
   '    """ Returns g_z for z = a - b. """\n    if a < b:'), rule='R-posdiff')
m('c04-residual-ge', ['C04', 'C03'],
  (EE, "if t <= elem_trial.time_interval[0]: continue",
   "if t <= elem_trial.time_interval[1]: continue"), rule='R-exit-sound')
m('c04-se1-ge', ['C04', 'C07'],
  (SLX, "    if t > b:\n        result -= (2 * sqrt(pi)",
   "    if t >= b:\n        result -= (2 * sqrt(pi)"), rule='R-posdiff')
m('c04-fint1-lt', ['C04'],
  (SLX, '    """ Returns integrate f_z(x-y) for x,y in [0,h]^2. """\n    if a <= b:',
   '    """ Returns integrate f_z(x-y) for x,y in [0,h]^2. """\n    if a < b:'),
  rule='R-posdiff')
m('c04-mirror-twin', ['C04'],
  (SL, "        if elem_test.time_interval[1] <= elem_trial.time_interval[0]:\n            return 0\n",
   "        if elem_trial.time_interval[0] >= elem_test.time_interval[1]:\n            return 0\n"),
  expect='silent')
m('c04-drop-term', ['C04', 'C01'],
  (SL, """        if a > d:
            z = a - d
            result -= FPI_INV * (z * np.exp(-x_sqr / z) +
                                 (x_sqr + z) * expi(-x_sqr / z))

""", "\n"), rule='R-fourterm')
m('c04-flip-sign', ['C04', 'C01'],
  (SL, """            z = b - c
            result -= FPI_INV""", """            z = b - c
            result += FPI_INV"""), rule='R-fourterm')
m('c04-wrong-z', ['C04', 'C01'],
  (SL, """        if b > c:
            z = b - c""", """        if b > c:
            z = b - d"""), rule='R-fourterm')
m('c04-body-sign', ['C04', 'C01'],
  (SL, """            z = a - c
            result += FPI_INV * (z * np.exp(-x_sqr / z) +
                                 (x_sqr + z) * expi(-x_sqr / z))""",
   """            z = a - c
            result += FPI_INV * (z * np.exp(-x_sqr / z) +
                                 (x_sqr - z) * expi(-x_sqr / z))"""),
  rule='K2')
m('c04-g-factor', ['C04', 'C01'],
  (SL, "return lambda x: FPI_INV * expi(-np.sum(x**2, axis=0) / (4 * z))",
   "return lambda x: FPI_INV * expi(-np.sum(x**2, axis=0) / (2 * z))"),
  rule='K1')
m('c04-mat-transposed-inline', ['C04', 'C17'],
  (SL, """            for i, elem_test in enumerate(elems_test):
                for j, elem_trial in enumerate(elems_trial):
                    mat[i, j] = self.bilform(elem_trial, elem_test)
            return mat""", """            for i, elem_test in enumerate(elems_test):
                for j, elem_trial in enumerate(elems_trial):
                    mat[j, i] = self.bilform(elem_trial, elem_test)
            return mat"""), rule='R-index')
m('c04-bilform-args-swapped', ['C04', 'C17'],
  (SL, """            for i, elem_test in enumerate(elems_test):
                for j, elem_trial in enumerate(elems_trial):
                    mat[i, j] = self.bilform(elem_trial, elem_test)
        else:""", """            for i, elem_test in enumerate(elems_test):
                for j, elem_trial in enumerate(elems_trial):
                    mat[i, j] = self.bilform(elem_test, elem_trial)
        else:"""), rule='R-index')
m('c04-pool-row', ['C04', 'C17'],
  (SL, "                mat[:, j] = col", "                mat[j, :] = col"),
  rule='R-index')
m('c04-sik-sign', ['C04', 'C01'],
  (SLX, """    f_da = fint_2(a, d, h, k)
    return f_bd - f_bc + f_ca - f_da""", """    f_da = fint_2(a, d, h, k)
    return f_bd - f_bc + f_ca + f_da"""), rule='R-fourterm')
m('c04-sik-args', ['C04', 'C01'],
  (SLX, "    f_ca = fint_2(a, c, h, k)", "    f_ca = fint_2(c, a, h, k)"),
  rule='R-fourterm')
m('c04-helper-twin', ['C04'],
  (SL, """        x_sqr = np.sum(x**2, axis=0) / 4
        result = 0
        if b > d:
            z = b - d
            result += FPI_INV * (z * np.exp(-x_sqr / z) +
                                 (x_sqr + z) * expi(-x_sqr / z))""",
   """        x_sqr = np.sum(x**2, axis=0) / 4
        result = 0
        if d < b:
            z = b - d
            result += FPI_INV * ((x_sqr + z) * expi(-x_sqr / z) +
                                 z * np.exp(-x_sqr / z))"""),
  expect='silent')

# ---- C19 / C06 / C02 / C10 (mesh) ------------------------------------------
m('c19-revert-f3', ['C19'],
  (M, """            marked = marked_space
            marked_space = []
            for elem in marked:
                if elem.children:
                    marked_space.extend(elem.children)
                else:
                    marked_space.append(elem)

            marked_space.sort(key=lambda elem: elem.level_space)
            for elem in marked_space:
                assert not elem.children
                self.refine_space(elem)
        print('Grading""", """            marked_space.sort(key=lambda elem: elem.level_space)
            for elem in marked_space:
                assert not elem.children
                self.refine_space(elem)
        print('Grading"""), rule='R-stale')
m('c19-conds-swapped', ['C19'],
  (M, """                if elem.h_t / K >= elem.h_x**sigma:
                    marked_time.append(elem)
                elif elem.h_x**sigma >= K * elem.h_t:
                    marked_space.append(elem)""",
   """                if elem.h_t / K >= elem.h_x**sigma:
                    marked_space.append(elem)
                elif elem.h_x**sigma >= K * elem.h_t:
                    marked_time.append(elem)"""), rule='R-window')
m('c19-strict', ['C19'],
  (M, "                if elem.h_t / K >= elem.h_x**sigma:",
   "                if elem.h_t / K > elem.h_x**sigma:"), rule='R-window')
m('c19-wrong-K', ['C19'],
  (M, "                elif elem.h_x**sigma >= K * elem.h_t:",
   "                elif elem.h_x**sigma >= elem.h_t / K:"), rule='R-window')
m('c19-time-unsorted', ['C19'],
  (M, """            marked_time.sort(key=lambda elem: elem.level_time)
            for elem in marked_time:
                self.refine_time(elem)""",
   """            for elem in marked_time:
                self.refine_time(elem)"""), rule='R-stale')
m('c19-rewrite-twin', ['C19'],
  (M, "                if elem.h_t / K >= elem.h_x**sigma:",
   "                if elem.h_t >= K * elem.h_x**sigma:"), expect='silent')
m('c19-while-and', ['C19'],
  (M, "        while marked_space or marked_time:",
   "        while marked_space and marked_time:"), rule='R-window')

m('c06-theta', ['C06'],
  (M, """            cumsum += eta_sqr[i]
            if cumsum >= eta_tot_sqr * theta**2:""",
   """            cumsum += eta_sqr[i]
            if cumsum >= eta_tot_sqr * theta:"""), rule='R-mark')
m('c06-strict', ['C06'],
  (M, """            cumsum += val
            if cumsum >= eta_tot_sqr * theta**2:""",
   """            cumsum += val
            if cumsum > eta_tot_sqr * theta**2:"""), rule='R-mark')
m('c06-break-before-mark', ['C06'],
  (M, """        for i in s_idx:
            marked.append(elems[i])
            cumsum += eta_sqr[i]
            if cumsum >= eta_tot_sqr * theta**2:
                break""", """        for i in s_idx:
            cumsum += eta_sqr[i]
            if cumsum >= eta_tot_sqr * theta**2:
                break
            marked.append(elems[i])"""), rule='R-mark')
m('c06-ascending', ['C06'],
  (M, "        s_idx = list(reversed(np.argsort(eta_sqr)))",
   "        s_idx = list(np.argsort(eta_sqr))"), rule='R-mark')
m('c06-total-col0', ['C06'],
  (M, """        errs.sort(reverse=True, key=lambda tup: tup[0])
        eta_tot_sqr = np.sum(eta_sqr)""",
   """        errs.sort(reverse=True, key=lambda tup: tup[0])
        eta_tot_sqr = np.sum(eta_sqr[:, 0])"""), rule='R-mark')
m('c06-no-reresolve', ['C06'],
  (M, """        marked_space = []
        for elem in marked[1]:
            if elem.children:
                marked_space.extend(elem.children)
            else:
                marked_space.append(elem)

        marked_space.sort""", """        marked_space = list(marked[1])

        marked_space.sort"""), rule='R-stale')
m('c06-sort-other-axis', ['C06'],
  (M, """        marked.sort(key=lambda elem: elem.level_time)
        children_time = []""", """        marked.sort(key=lambda elem: elem.level_space)
        children_time = []"""), rule='R-stale')
m('c06-children-unsorted', ['C06'],
  (M, "        children_time.sort(key=lambda elem: elem.level_space)\n", "\n"),
  rule='R-stale')
m('c06-axis-swapped', ['C06'],
  (M, "            marked[refine_axis].append(elem)",
   "            marked[1 - refine_axis].append(elem)"), rule='R-mark')
m('c06-tags-swapped', ['C06'],
  (M, "errs = [(val, elem, 0) for val, elem in zip(eta_sqr[:, 0], elems)]",
   "errs = [(val, elem, 0) for val, elem in zip(eta_sqr[:, 1], elems)]"),
  rule='R-mark')
m('c06-no-reverse', ['C06'],
  (M, "errs.sort(reverse=True, key=lambda tup: tup[0])",
   "errs.sort(key=lambda tup: tup[0])"), rule='R-mark')
m('c06-argsort-neg-twin', ['C06'],
  (M, "        s_idx = list(reversed(np.argsort(eta_sqr)))",
   "        s_idx = np.argsort(eta_sqr)[::-1]"), expect='silent')
m('c06-mirror-twin', ['C06'],
  (M, """            cumsum += eta_sqr[i]
            if cumsum >= eta_tot_sqr * theta**2:""",
   """            cumsum += eta_sqr[i]
            if theta**2 * eta_tot_sqr <= cumsum:"""), expect='silent')

m('c02-revert-f4', ['C02'],
  (M, """        leaves = sorted(list(self.leaf_elements),
                        key=lambda elem: elem.level_space)
        for elem in leaves:
            self.refine_space(elem)

    def dorfler""", """        leaves = list(self.leaf_elements)
        for elem in leaves:
            self.refine_space(elem)

    def dorfler"""), rule='R-stale')
m('c02-uniform-stale', ['C02'],
  (M, """        leaves = sorted(list(self.leaf_elements),
                        key=lambda elem: elem.level_space)
        for elem in leaves:
            self.refine_space(elem)

    def uniform_refine_space""", """        leaves = sorted(leaves, key=lambda elem: elem.level_space)
        for elem in leaves:
            self.refine_space(elem)

    def uniform_refine_space"""), rule='R-stale')
m('c02-closure-le', ['C02'],
  (M, "                if nbr_elem.levels[ax] < elem.levels[ax]:",
   "                if nbr_elem.levels[ax] <= elem.levels[ax]:"),
  rule='R-closure')
m('c02-closure-other-axis', ['C02'],
  (M, "                if nbr_elem.levels[ax] < elem.levels[ax]:",
   "                if nbr_elem.levels[1 - ax] < elem.levels[ax]:"),
  rule='R-closure')
m('c02-closure-axis-edges', ['C02'],
  (M, """        for edge in elem.edges:
            for nbr_elem in edge.neighbour_elements():""",
   """        for edge in elem.edges_axis(ax):
            for nbr_elem in edge.neighbour_elements():"""), rule='R-closure')
m('c02-child-levels', ['C02'],
  (M, """                                    edges[3].children[1]),
                             levels=(elem.level_time + 1, elem.level_space),""",
   """                                    edges[3].children[1]),
                             levels=(elem.level_time + 1, elem.level_space + 1),"""),
  rule='R-children')
m('c02-child-edge-swap', ['C02'],
  (M, """            child1 = Element(edges=(edges[0].children[0], e1,
                                    edges[2].children[1], edges[3]),""",
   """            child1 = Element(edges=(edges[0].children[1], e1,
                                    edges[2].children[1], edges[3]),"""),
  rule='R-children')
m('c02-globidx', ['C02'],
  (M, "        child2.glob_idx = self.N_elements + 1",
   "        child2.glob_idx = self.N_elements"), rule='R-leafbook')
m('c02-counter', ['C02'],
  (M, "        self.N_elements += 2", "        self.N_elements += 1"),
  rule='R-leafbook')
m('c02-no-pop', ['C02'],
  (M, "        self.leaf_elements.pop(elem)\n", ""), rule='R-leafbook')
m('c02-reuse-glued', ['C02', 'C10'],
  (M, "        if not edge.glued and edge.nbr_edge and edge.nbr_edge.children:",
   "        if edge.nbr_edge and edge.nbr_edge.children:"), rule='R-vreuse')
m('c02-vertex-idx', ['C02'],
  (M, "                                  idx=len(self.vertices))\n            self.vertices.append(child_vertex)",
   "                                  idx=len(self.vertices) + 1)\n            self.vertices.append(child_vertex)"),
  rule='R-vreuse')
m('c02-foreign-writer', ['C02', 'C10'],
  (EE, "        time_neighbours = [elem]\n",
   "        time_neighbours = [elem]\n        elem.children = []\n"),
  rule='R-own')

m('c10-cross-same', ['C10', 'C02'],
  (M, "                self.children[0].nbr_edge = self.nbr_edge.children[1]",
   "                self.children[0].nbr_edge = self.nbr_edge.children[0]"),
  rule='R-cross')
m('c10-unpaired', ['C10', 'C02'],
  (M, "                self.nbr_edge.children[1].nbr_edge = self.children[0]\n",
   ""), rule='R-pair')
m('c10-glued-not-inherited', ['C10', 'C02'],
  (M, "            self.glued = parent.glued", "            self.glued = False"),
  rule='R-inherit')
m('c10-ladder-parent', ['C10'],
  (M, "        if not self.nbr_edge and self.parent and self.parent.nbr_edge:",
   "        if not self.nbr_edge and self.parent:"), rule='R-ladder')
m('c10-ladder-swap-twin', ['C10'],
  (M, """        if self.nbr_edge and not self.nbr_edge.children:
            return [self.nbr_edge.elem]

        # If we have a neighbour edge that is refined, return its children.
        if self.nbr_edge and self.nbr_edge.children:
            return [child.elem for child in self.nbr_edge.children]
""", """        if self.nbr_edge and self.nbr_edge.children:
            return [child.elem for child in self.nbr_edge.children]

        if self.nbr_edge and not self.nbr_edge.children:
            return [self.nbr_edge.elem]
"""), expect='silent')
m('c10-glue-wrong-edge', ['C10'],
  (M, "                roots[j * N_x].edges[3].nbr_edge = roots[-1].edges[1]",
   "                roots[j * N_x].edges[3].nbr_edge = roots[-1].edges[3]"),
  rule='R-pair')
m('c10-glue-first-row', ['C10'],
  (M, """                roots[j * N_x].edges[3].nbr_edge = roots[-1].edges[1]
                roots[-1].edges[1].nbr_edge = roots[j * N_x].edges[3]""",
   """                roots[0].edges[3].nbr_edge = roots[-1].edges[1]
                roots[-1].edges[1].nbr_edge = roots[0].edges[3]"""),
  rule='R-wiring')
m('c10-boundary-flag', ['C10'],
  (M, "                if i + 1 == N_x: e2.on_boundary = True",
   "                if i == N_x: e2.on_boundary = True"), rule='R-wiring')

# ---- C17 ------------------------------------------------------------------
m('c17-imap-unordered', ['C17'],
  (SL, "mp.Pool(mp.cpu_count()).imap(MP_SL_matrix_col, range(M),",
   "mp.Pool(mp.cpu_count()).imap_unordered(MP_SL_matrix_col, range(M),"),
  rule='R-ordered')
m('c17-globals-late', ['C17'],
  (SL, """            globals()['__SL'] = self
            cpu = mp.cpu_count()
            for j, col in enumerate(
                    mp.Pool(mp.cpu_count()).imap(MP_SL_matrix_col, range(M),
                                                 M // (16 * cpu) + 1)):
                mat[:, j] = col""", """            cpu = mp.cpu_count()
            pool = mp.Pool(mp.cpu_count())
            globals()['__SL'] = self
            for j, col in enumerate(
                    pool.imap(MP_SL_matrix_col, range(M),
                              M // (16 * cpu) + 1)):
                mat[:, j] = col"""), rule='R-handover')
m('c17-global-misspelt', ['C17'],
  (SL, "            globals()['__elems_trial'] = elems_trial",
   "            globals()['__elems_trail'] = elems_trial"), rule='R-handover')
m('c17-key-drops-trial', ['C17'],
  (SL, """            md5 = hashlib.md5((str(self.mesh.gamma_space) + str(elems_test) +
                               str(elems_trial)).encode()).hexdigest()""",
   """            md5 = hashlib.md5((str(self.mesh.gamma_space) +
                               str(elems_test)).encode()).hexdigest()"""),
  rule='R-cachekey')
m('c17-key-drops-curve', ['C17'],
  (IP, """            md5 = hashlib.md5((str(self.bdr_mesh.gamma_space) +
                               str(elems)).encode()).hexdigest()""",
   """            md5 = hashlib.md5((str(elems)).encode()).hexdigest()"""),
  rule='R-cachekey')
m('c17-except-returns', ['C17'],
  (SL, """                print("Loaded Single Layer from file {}".format(cache_fn))
                return mat
            except:
                pass""", """                print("Loaded Single Layer from file {}".format(cache_fn))
                return mat
            except:
                return np.zeros((N, M))"""), rule='R-cacheio')
m('c17-repr-lossy', ['C17'],
  (M, """        return "Elem(t={}, x={})".format(self.time_interval,
                                         self.space_interval)""",
   """        return "Elem(t=({:g}, {:g}), x=({:g}, {:g}))".format(
            *self.time_interval, *self.space_interval)"""), rule='R-cachekey')
m('c17-repr-drops-time', ['C17'],
  (M, """        return "Elem(t={}, x={})".format(self.time_interval,
                                         self.space_interval)""",
   """        return "Elem(x={})".format(self.space_interval)"""),
  rule='R-cachekey')
m('c17-pool-kept', ['C17'],
  (IP, """            cpu = mp.cpu_count()
            vec = np.array(
                mp.Pool(mp.cpu_count()).map(MP_M0_val, range(N),
                                            N // (cpu * 8) + 1))""",
   """            cpu = mp.cpu_count()
            if getattr(self, 'pool', None) is None:
                self.pool = mp.Pool(mp.cpu_count())
            vec = np.array(
                self.pool.map(MP_M0_val, range(N), N // (cpu * 8) + 1))"""),
  rule='R-handover')
m('c17-worker-component', ['C17'],
  (IP, "    return __M0.linform(__elems[j])[0]",
   "    return __M0.linform(__elems[j])[1]"), rule='R-samecall')
m('c17-sobolev-flag', ['C17', 'C09'],
  (EE, """    return __error_estimator.sobolev_time(__elems[i],
                                          __residual,
                                          nbrs_symmetry=True)""",
   """    return __error_estimator.sobolev_time(__elems[i],
                                          __residual,
                                          nbrs_symmetry=False)"""),
  rule='R-samecall')
m('c17-save-unprotected-twin', ['C17'],
  (SL, """                print("Stored Single Layer to {}".format(cache_fn))""",
   """                print("Stored SL to {}".format(cache_fn))"""),
  expect='silent')

# ---- C15 ------------------------------------------------------------------
m('c15-drop-side', ['C15'],
  (Q, "        return (d - c) * (b - a) * (l - k) * np.dot(fx, self.weights)",
   "        return (d - c) * (b - a) * np.dot(fx, self.weights)"),
  rule='R-affine')
m('c15-wrong-points', ['C15'],
  (Q, "            k + (l - k) * self.points[2]", "            k + (l - k) * self.points[1]"),
  rule='R-affine')
m('c15-2d-wrong-bound', ['C15'],
  (Q, "[a + (b - a) * self.points[0], c + (d - c) * self.points[1]])",
   "[a + (b - a) * self.points[0], c + (d - a) * self.points[1]])"),
  rule='R-affine')
m('c15-mirror-y-wrong-slot', ['C15'],
  (Q, "            self._mirror_y = QuadScheme2D([self.points[0], 1 - self.points[1]],",
   "            self._mirror_y = QuadScheme2D([1 - self.points[0], self.points[1]],"),
  rule='R-mirror')
m('c15-mirror-z', ['C15'],
  (Q, "                [self.points[0], self.points[1], 1 - self.points[2]],",
   "                [self.points[0], 1 - self.points[1], self.points[2]],"),
  rule='R-mirror')
m('c15-duffy2d-weight', ['C15'],
  (Q, "        weights = scheme2d.weights * x\n", "        weights = scheme2d.weights * y\n"),
  rule='R-jac')
m('c15-duffy3d-jac', ['C15'],
  (Q, "            weights = np.tile(scheme3d.weights * x**2 * y, 6)",
   "            weights = np.tile(scheme3d.weights * x * y, 6)"), rule='R-jac')
m('c15-duffy3d-map', ['C15'],
  (Q, "        T2 = [x * (1 - y + y * z), x * y * z, x]",
   "        T2 = [x * (1 - y + z), x * y * z, x]"), rule='R-jac')
m('c15-duffy3d-tile5', ['C15'],
  (Q, "            weights = np.tile(scheme3d.weights * x**2 * y, 6)",
   "            weights = np.tile(scheme3d.weights * x**2 * y, 5)"),
  rule='R-jac')
m('c15-touch-map', ['C15'],
  (Q, "        P3 = [x * y, z * y, y]", "        P3 = [x * y, z, y]"),
  rule='R-jac')
m('c15-touch-weight', ['C15'],
  (Q, "        weights = np.tile(scheme3d.weights * y**2, 3)",
   "        weights = np.tile(scheme3d.weights * y, 3)"), rule='R-jac')
m('c15-product-repeat', ['C15'],
  (Q, """        points = np.array([
            np.repeat(scheme_x.points, len(scheme_y.points)),
            np.tile(scheme_y.points, len(scheme_x.points))
        ])
        weights = np.kron(scheme_x.weights, scheme_y.weights)""",
   """        points = np.array([
            np.repeat(scheme_x.points, len(scheme_x.points)),
            np.tile(scheme_y.points, len(scheme_x.points))
        ])
        weights = np.kron(scheme_x.weights, scheme_y.weights)"""),
  rule='R-layout')
m('c15-product-kron', ['C15'],
  (Q, "        weights = np.kron(scheme_x.weights, scheme_y.weights)\n        super().__init__(points=points, weights=weights)\n\n\nclass QuadpyScheme2D",
   "        weights = np.kron(scheme_y.weights, scheme_x.weights)\n        super().__init__(points=points, weights=weights)\n\n\nclass QuadpyScheme2D"),
  rule='R-layout')
m('c15-duffy2d-sym-twin', ['C15'],
  (Q, "        y = 1 - scheme2d.points[1]\n        xy = x * y\n        weights = scheme2d.weights * x\n",
   "        y = 1 - scheme2d.points[1]\n        xy = y * x\n        weights = x * scheme2d.weights\n"),
  expect='silent')

# ---- C01 / C11 / C12 --------------------------------------------------------
m('c01-touch-mirror', ['C01', 'C12'],
  (SL, """            if abs(h_x - h_y) < 1e-10:
                return self.duff_log_log.mirror_x().integrate(f, a, b, c, d)""",
   """            if abs(h_x - h_y) < 1e-10:
                return self.duff_log_log.mirror_y().integrate(f, a, b, c, d)"""),
  rule='R-apex')
m('c01-seam-mirror', ['C01', 'C12'],
  (SL, """            if abs(h_x - h_y) < 1e-10:
                return self.duff_log_log.mirror_y().integrate(f, a, b, c, d)""",
   """            if abs(h_x - h_y) < 1e-10:
                return self.duff_log_log.mirror_x().integrate(f, a, b, c, d)"""),
  rule='R-apex')
m('c01-disjoint-mirror', ['C01', 'C12'],
  (SL, """                return self.log_log.mirror_x().integrate(f, a, b, c, d)
            else:
                return self.log_log.mirror_y().integrate(f, a, b, c, d)""",
   """                return self.log_log.mirror_y().integrate(f, a, b, c, d)
            else:
                return self.log_log.mirror_x().integrate(f, a, b, c, d)"""),
  rule='R-apex')
m('c01-gap-flipped', ['C01', 'C12'],
  (SL, "            if c - b < self.gamma_len - d + a or not self.glue_space:",
   "            if c - b > self.gamma_len - d + a or not self.glue_space:"),
  rule='R-apex')
m('c01-gap-wrong', ['C01', 'C12'],
  (SL, "            if c - b < self.gamma_len - d + a or not self.glue_space:",
   "            if c - b < self.gamma_len - d - a or not self.glue_space:"),
  rule='R-apex')
m('c01-identical-mirrored', ['C01'],
  (SL, """        if a == c and b == d:
            return self.duff_log_log.integrate(f, a, b, c, d)""",
   """        if a == c and b == d:
            return self.duff_log_log.mirror_x().integrate(f, a, b, c, d)"""),
  rule='R-apex')
m('c01-touch-split-hx', ['C01', 'C11'],
  (SL, """                return self.duff_log_log.mirror_x().integrate(
                    f, b - h_y, b, c, d) + self.__integrate(
                        f, a, b - h_y, c, d)""",
   """                return self.duff_log_log.mirror_x().integrate(
                    f, b - h_y, b, c, d) + self.__integrate(
                        f, a, b - h_x, c, d)"""), rule='R-partition')
m('c01-touch-cond-flipped', ['C01', 'C11'],
  (SL, """                return self.duff_log_log.mirror_x().integrate(f, a, b, c, d)
            elif h_x > h_y:
                return self.duff_log_log.mirror_x().integrate(
                    f, b - h_y, b, c, d)""",
   """                return self.duff_log_log.mirror_x().integrate(f, a, b, c, d)
            elif h_x < h_y:
                return self.duff_log_log.mirror_x().integrate(
                    f, b - h_y, b, c, d)"""), rule='R-partition')
m('c01-seam-split', ['C01', 'C11'],
  (SL, """                    f, a, a + h_y, c, d) + self.__integrate(
                        f, a + h_y, b, c, d)""",
   """                    f, a, a + h_y, c, d) + self.__integrate(
                        f, a + h_x, b, c, d)"""), rule='R-partition')
m('c01-overlap-split', ['C01', 'C11'],
  (SL, """        return self.__integrate(f, a, c, c, d) + self.__integrate(
            f, c, b, c, d)""", """        return self.__integrate(f, a, c, a, d) + self.__integrate(
            f, c, b, c, d)"""), rule='R-partition')
m('c01-contained-dropped', ['C01', 'C11'],
  (SL, """            return self.__integrate(f, a, b, c, b) + self.__integrate(
                f, a, b, b, d)""", """            return self.__integrate(f, a, b, c, b)"""),
  rule='R-partition')
m('c01-longer-mirror', ['C01'],
  (SL, """                f, a, d, c, d) + self.duff_log_log.mirror_y().integrate(
                    f, d, b, c, d)""", """                f, a, d, c, d) + self.duff_log_log.mirror_x().integrate(
                    f, d, b, c, d)"""), rule='R-apex')
m('c01-bilform-no-swap-x', ['C01', 'C12'],
  (SL, """            G_time_parametrized = lambda x: G_time(
                gamma_test(x[1]) - gamma_trial(x[0]))""",
   """            G_time_parametrized = lambda x: G_time(
                gamma_test(x[0]) - gamma_trial(x[1]))"""), rule='R-binding')
m('c01-bilform-no-swap-intervals', ['C01', 'C12'],
  (SL, """            return self.__integrate(G_time_parametrized,
                                    *elem_trial.space_interval,
                                    *elem_test.space_interval)""",
   """            return self.__integrate(G_time_parametrized,
                                    *elem_test.space_interval,
                                    *elem_trial.space_interval)"""),
  rule='R-binding')
m('c01-dtik-roles', ['C01'],
  (SL, "        G_time = double_time_integrated_kernel(a, b, c, d)",
   "        G_time = double_time_integrated_kernel(c, d, a, b)"),
  rule='R-binding')
m('c01-exact-time-roles', ['C01'],
  (SL, """            return spacetime_integrated_kernel(*elem_test.time_interval,
                                               *elem_trial.time_interval,""",
   """            return spacetime_integrated_kernel(*elem_trial.time_interval,
                                               *elem_test.time_interval,"""),
  rule='R-binding')
m('c01-straight-dropped-same', ['C01'],
  (SL, "        if self.pw_exact and elem_test.gamma_space is elem_trial.gamma_space:",
   "        if self.pw_exact:"), rule='R-straight')
m('c01-revert-f8', ['C01'],
  (SL, """        self.pw_exact = pw_exact and isinstance(mesh.gamma_space,
                                                PiecewisePolygon)""",
   """        self.pw_exact = pw_exact"""), rule='R-straight')
m('c01-duffy-symmetric', ['C01'],
  (SL, "        self.duff_log_log = DuffyScheme2D(self.log_log, symmetric=False)",
   "        self.duff_log_log = DuffyScheme2D(self.log_log, symmetric=True)"),
  rule='R-sym')
m('c01-loglog-mirrored-base', ['C01'],
  (SL, "        self.log_log = ProductScheme2D(self.log_scheme, self.log_scheme)",
   "        self.log_log = ProductScheme2D(self.log_scheme, self.log_scheme_m)"),
  rule='R-sym')
m('c01-fint1-coef', ['C01'],
  (SLX, "4 * z * (exp(-(h**2 / (4 * z))) * (h**2 - 12 * z) + 12 * z),",
   "4 * z * (exp(-(h**2 / (4 * z))) * (h**2 - 6 * z) + 12 * z),"),
  rule='K4')
m('c01-fint2-sign', ['C01'],
  (SLX, "            64 * k * PI_SQRT * z**(3 / 2) * erf(k / (2 * zsqrt)),",
   "            -64 * k * PI_SQRT * z**(3 / 2) * erf(k / (2 * zsqrt)),"),
  rule='K4')
m('c01-fint3-literal', ['C01'],
  (SLX, "(4 * h - 3 * k) * PI_SQRT", "(4 * h - 2 * k) * PI_SQRT"), rule='K4')
m('c01-fint4-literal', ['C01'],
  (SLX, "            (l**4 + 24 * l2 * z) * expi(-(l2 / z4)),",
   "            (l**4 + 12 * l2 * z) * expi(-(l2 / z4)),"), rule='K4')
m('c01-translate', ['C01'],
  (SLX, """        return spacetime_integrated_kernel_4(t_a, t_b, s_a, s_b, x_b - x_a,
                                             y_a - x_a, y_b - x_a)""",
   """        return spacetime_integrated_kernel_4(t_a, t_b, s_a, s_b, x_b - x_a,
                                             y_a - x_b, y_b - x_b)"""),
  rule='R-translate')
m('c01-exact-split', ['C01', 'C11'],
  (SLX, """        return spacetime_integrated_kernel(t_a, t_b, s_a, s_b, x_a, y_a, y_a,
                                           y_b) + spacetime_integrated_kernel(""",
   """        return spacetime_integrated_kernel(t_a, t_b, s_a, s_b, x_a, y_a, x_a,
                                           y_b) + spacetime_integrated_kernel("""),
  rule='R-partition')
m('c01-hy-lt-hx-twin', ['C01'],
  (SL, """            elif h_x > h_y:
                return self.duff_log_log.mirror_x().integrate(
                    f, b - h_y, b, c, d)""", """            elif h_y < h_x:
                return self.duff_log_log.mirror_x().integrate(
                    f, b - h_y, b, c, d)"""), expect='silent')
m('c01-fsum-twin', ['C01'],
  (SLX, "        return 1 / (96 * pi) * fsum([", "        return (1 / (96 * pi)) * sum(["),
  expect='silent')
m('c06-order-swapped', ['C06'],
  (M, """        marked[0].sort(key=lambda elem: elem.level_time)
        for elem in marked[0]:
            assert not elem.children
            self.refine_time(elem)

        # Replace elements marked for space refinement that have been refined
        # by the time refinemenent.
        marked_space = []
        for elem in marked[1]:
            if elem.children:
                marked_space.extend(elem.children)
            else:
                marked_space.append(elem)

        marked_space.sort(key=lambda elem: elem.level_space)
        for elem in marked_space:
            assert not elem.children
            self.refine_space(elem)""",
   """        marked[1].sort(key=lambda elem: elem.level_space)
        for elem in marked[1]:
            assert not elem.children
            self.refine_space(elem)

        marked_time = []
        for elem in marked[0]:
            if elem.children:
                marked_time.extend(elem.children)
            else:
                marked_time.append(elem)

        marked_time.sort(key=lambda elem: elem.level_time)
        for elem in marked_time:
            assert not elem.children
            self.refine_time(elem)"""), rule='R-mark')

# ---- C07 ------------------------------------------------------------------
m('c07-split-schemes-swapped', ['C07'],
  (SL, """            return self.log_scheme_m.integrate(
                G_time_parametrized, x_a, x_hat) + self.log_scheme.integrate(
                    G_time_parametrized, x_hat, x_b)""",
   """            return self.log_scheme.integrate(
                G_time_parametrized, x_a, x_hat) + self.log_scheme_m.integrate(
                    G_time_parametrized, x_hat, x_b)"""), rule='R-grading-end')
m('c07-nearer-flipped', ['C07'],
  (SL, "        if d_a <= d_b:\n            xy_sqr", "        if d_a >= d_b:\n            xy_sqr"),
  rule='R-grading-end')
m('c07-seam-distance', ['C07'],
  (SL, "d_a = min(abs(x_hat - x_a), abs(self.gamma_len - x_hat + x_a))",
   "d_a = min(abs(x_hat - x_a), abs(self.gamma_len - x_hat - x_a))"),
  rule='R-grading-end')
m('c07-tail-sign', ['C07'],
  (SL, "            vec = -FPI_INV * expi(-xy / (4 * (t - t_a)))",
   "            vec = FPI_INV * expi(-xy / (4 * (t - t_a)))"), rule='K3')
m('c07-closure-swapped', ['C07'],
  (SL, """                    return FPI_INV * (expi(-xy / (4 *
                                                  (t - b))) - expi(-xy /
                                                                   (4 *
                                                                    (t - a))))""",
   """                    return FPI_INV * (expi(-xy / (4 *
                                                  (t - a))) - expi(-xy /
                                                                   (4 *
                                                                    (t - b))))"""),
  rule='K3')
m('c07-exact-coef', ['C07'],
  (SL, "                return -FPI_INV * (PI_SQRT * (2 * sqrt(",
   "                return -FPI_INV * (PI_SQRT * (sqrt("), rule='K5')
m('c07-exact-sign', ['C07'],
  (SL, "(t - a))))) - h * expi(-(h**2 / (4 * (t - a)))) +",
   "(t - a))))) + h * expi(-(h**2 / (4 * (t - a)))) +"), rule='K5')
m('c07-exact-minmax', ['C07'],
  (SL, "            h = min(abs(a - x), abs(b - x))\n            k = max(abs(a - x), abs(b - x))",
   "            h = max(abs(a - x), abs(b - x))\n            k = min(abs(a - x), abs(b - x))"),
  rule='K5')
m('c07-exact-inside', ['C07'],
  (SL, "                t, *elem_trial.time_interval, x - a) + spacetime_evaluated_1(\n                    t, *elem_trial.time_interval, b - x)",
   "                t, *elem_trial.time_interval, x - a) + spacetime_evaluated_1(\n                    t, *elem_trial.time_interval, b - a)"),
  rule='K5')
m('c07-se1-sign', ['C07'],
  (SLX, "    if t > b:\n        result -= (2 * sqrt(pi) * sqrt((t - b))",
   "    if t > b:\n        result += (2 * sqrt(pi) * sqrt((t - b))"), rule='K5')
m('c07-init-mirror-table', ['C07'],
  (SL, """            elem.__log_scheme_m_y = elem.gamma_space(a + (b - a) *
                                                     self.log_scheme_m.points)""",
   """            elem.__log_scheme_m_y = elem.gamma_space(a + (b - a) *
                                                     self.log_scheme.points)"""),
  rule='R-grading-end')
m('c07-exact-swap-twin', ['C07'],
  (SL, "            h = min(abs(a - x), abs(b - x))\n            k = max(abs(a - x), abs(b - x))",
   "            h = min(abs(x - a), abs(x - b))\n            k = max(abs(x - a), abs(x - b))"),
  expect='silent')
m('c07-residual-same-piece', ['C07', 'C03'],
  (EE, "                    if SL_exact_eval and elem_trial.gamma_space is gamma:",
   "                    if SL_exact_eval:"), rule='R-straight')
m('c07-revert-f8-residual', ['C07', 'C03'],
  (EE, """        SL_exact_eval = SL_exact_eval and isinstance(
            self.bdr_mesh.gamma_space, PiecewisePolygon)
""", ""), rule='R-straight')

# ---- C03 / C20 --------------------------------------------------------------
m('c03-rhs-plus-m0', ['C03'],
  (EX, "            rhs = -M0.linform_vector(elems=elems, use_mp=True)",
   "            rhs = M0.linform_vector(elems=elems, use_mp=True)"),
  rule='R-signs')
m('c03-rhs-minus-g', ['C03'],
  (EX, "            rhs += g_linform(elems)", "            rhs -= g_linform(elems)"),
  rule='R-signs')
m('c03-residual-m0-sign', ['C03'],
  (EE, "                    result[i] += np.squeeze(M0u0(t, x.reshape(2, 1)))",
   "                    result[i] -= np.squeeze(M0u0(t, x.reshape(2, 1)))"), rule='R-signs')
m('c03-residual-g-sign', ['C03'],
  (EE, "                    result[i] -= np.squeeze(g(t, x.reshape(2, 1)))",
   "                    result[i] += np.squeeze(g(t, x.reshape(2, 1)))"), rule='R-signs')
m('c03-residual-no-phi', ['C03'],
  (EE, """                        VPhi += Phi[j] * SL.evaluate(elem_trial, t, x_hat,
                                                     x.reshape(2, 1))""",
   """                        VPhi += SL.evaluate(elem_trial, t, x_hat,
                                            x.reshape(2, 1))"""),
  rule='R-signs')
m('c03-singular-quarter', ['C03'],
  (PR, """        return (1 / 4) * (erf(
            (1 - a) / (2 * np.sqrt(t))) + erf(a / (2 * np.sqrt(t)))) * (erf(""",
   """        return (1 / 2) * (erf(
            (1 - a) / (2 * np.sqrt(t))) + erf(a / (2 * np.sqrt(t)))) * (erf("""),
  rule='K8')
m('c03-lshape-erf', ['C03'],
  (PR, """        return (1 / 4) * ((erf((1 - a) / (2 * np.sqrt(t))) + erf(
            (1 + a) / (2 * np.sqrt(t)))) * (erf(""",
   """        return (1 / 4) * ((erf((1 - a) / (2 * np.sqrt(t))) + erf(
            (1 - a) / (2 * np.sqrt(t)))) * (erf("""), rule='K8')
m('c03-smooth-exp', ['C03'],
  (PR, "(2 * sqrtt)) - np.exp(2 * 1j * x * np.pi) * (erf(",
   "(2 * sqrtt)) - np.exp(1j * x * np.pi) * (erf("), rule='K8')
m('c03-mild-third', ['C03'],
  (PR, "            1 / 3 * elem.h_x *", "            1 / 2 * elem.h_x *"),
  rule='K8')
m('c03-dirichlet-load', ['C03'],
  (PR, "            [elem.h_t * elem.h_x for elem in elems])",
   "            [elem.h_t for elem in elems])"), rule='K8')
m('c03-problem-domain', ['C03'],
  (PR, """        elif domain == 'LShape':
            result.update(singular_lshape())""", """        elif domain == 'LShape':
            result.update(singular_square())"""), rule='K8')
m('c03-matrix-lists', ['C03'],
  (EX, "        mat = SL.bilform_matrix(elems, elems, use_mp=True)",
   "        mat = SL.bilform_matrix(elems, list(mesh.leaf_elements)[::-1], use_mp=True)"),
  rule='R-index')

m('c20-repeat-tile', ['C20'],
  (HH, "        Phi_prolong = np.repeat(Phi, 4)", "        Phi_prolong = np.tile(Phi, 4)"),
  rule='R-hier')
m('c20-rhs-sign', ['C20', 'C03'],
  (HH, "            rhs -= self.M0.linform_vector(elems=elems_fine, use_mp=self.use_mp)",
   "            rhs += self.M0.linform_vector(elems=elems_fine, use_mp=self.use_mp)"),
  rule='R-signs')
m('c20-energy-norm', ['C20'],
  (HH, "        return np.sqrt(diff.T @ mat_fine @ diff)", "        return np.sqrt(diff.T @ diff)"),
  rule='R-hier')
m('c20-test-trial-swapped', ['C20'],
  (HI, """        mat = self.SL.bilform_matrix(elems_test=elems_fine,
                                     elems_trial=elems_coarse,""",
   """        mat = self.SL.bilform_matrix(elems_test=elems_coarse,
                                     elems_trial=elems_fine,"""),
  rule='R-index')
m('c20-patterns-swapped', ['C20'],
  (HI, "            for k, coefs in enumerate([[1, 1, -1, -1], [1, -1, 1, -1],",
   "            for k, coefs in enumerate([[1, -1, 1, -1], [1, 1, -1, -1],"),
  rule='R-hier')
m('c20-half', ['C20'],
  (HI, "            estims.append((estim_loc[0] + 0.5 * estim_loc[2],",
   "            estims.append((estim_loc[0] + 1.0 * estim_loc[2],"),
  rule='R-hier')
m('c20-scaling-squared', ['C20'],
  (HI, "                estim_loc[k] = abs(rhs_estim - V_estim)**2 / scaling_estim",
   "                estim_loc[k] = abs(rhs_estim - V_estim)**2 / scaling_estim**2"),
  rule='R-hier')
m('c20-children-order', ['C20', 'C11'],
  (HI, """                DummyElement(vertices=[v30, vi, v23, v3], gamma_space=gamma),
                DummyElement(vertices=[vi, v12, v2, v23], gamma_space=gamma),""",
   """                DummyElement(vertices=[vi, v12, v2, v23], gamma_space=gamma),
                DummyElement(vertices=[v30, vi, v23, v3], gamma_space=gamma),"""),
  rule='R-children')
m('c20-children-consistent-twin', ['C20'],
  (HI, """                DummyElement(vertices=[v01, v1, v12, vi], gamma_space=gamma),
                DummyElement(vertices=[v30, vi, v23, v3], gamma_space=gamma),""",
   """                DummyElement(vertices=[v01, v1, v12, vi], gamma_space=gamma),
                DummyElement(vertices=[v30, vi, v23, v3], gamma_space=elem_coarse.gamma_space),"""),
  expect='silent')
m('c20-prolongate-single', ['C20'],
  (M, """        while elem_coarse not in elem_coarse_2_idx:
            assert elem_coarse.parent
            elem_coarse = elem_coarse.parent""",
   """        if elem_coarse not in elem_coarse_2_idx:
            assert elem_coarse.parent
            elem_coarse = elem_coarse.parent"""), rule='R-hier')
m('c20-prolongate-j', ['C20'],
  (M, "        vec_fine[j] = vec_coarse[i]", "        vec_fine[j] = vec_coarse[j]"),
  rule='R-hier')

# ---- C09 ------------------------------------------------------------------
m('c09-weights-swapped', ['C09'],
  (EE, "        return sqrt(elem.h_t) * elem.h_x * res_l2, elem.h_t * res_l2",
   "        return elem.h_t * res_l2, sqrt(elem.h_t) * elem.h_x * res_l2"),
  rule='R-weights')
m('c09-weights-sqrt-hx', ['C09'],
  (EE, "        return sqrt(elem.h_t) * elem.h_x * res_l2, elem.h_t * res_l2",
   "        return sqrt(elem.h_x) * elem.h_t * res_l2, elem.h_t * res_l2"),
  rule='R-weights')
m('c09-time-patch-union', ['C09'],
  (EE, """            t_a = max(time_nbr.time_interval[0], elem.time_interval[0])
            t_b = min(time_nbr.time_interval[1], elem.time_interval[1])""",
   """            t_a = min(time_nbr.time_interval[0], elem.time_interval[0])
            t_b = max(time_nbr.time_interval[1], elem.time_interval[1])"""),
  rule='R-patch')
m('c09-left-right-swapped', ['C09'],
  (EE, """            elif elem.vertices[0].x < time_nbr.vertices[0].x:
                elem_left = elem
                elem_right = time_nbr""", """            elif elem.vertices[0].x < time_nbr.vertices[0].x:
                elem_left = time_nbr
                elem_right = elem"""), rule='R-patch')
m('c09-seam-branch-swapped', ['C09'],
  (EE, """                    0].x == 0:
                elem_left = time_nbr
                elem_right = elem
            elif elem.vertices[2].x""", """                    0].x == 0:
                elem_left = elem
                elem_right = time_nbr
            elif elem.vertices[2].x"""), rule='R-patch')
m('c09-sobolev-time-intersection', ['C09'],
  (EE, """            t_a = min(space_nbr.time_interval[0], elem.time_interval[0])
            t_b = max(space_nbr.time_interval[1], elem.time_interval[1])""",
   """            t_a = max(space_nbr.time_interval[0], elem.time_interval[0])
            t_b = min(space_nbr.time_interval[1], elem.time_interval[1])"""),
  rule='R-patch')
m('c09-accumulate-le', ['C09'],
  (EE, """            for elem_nbr, val_nbr in sobolev_space[i][1]:
                if elem.glob_idx < elem_nbr:""", """            for elem_nbr, val_nbr in sobolev_space[i][1]:
                if elem.glob_idx <= elem_nbr:"""), rule='R-accumulate')
m('c09-producer-ge', ['C09'],
  (EE, "            if nbrs_symmetry and elem.glob_idx > time_nbr.glob_idx: continue",
   "            if nbrs_symmetry and elem.glob_idx >= time_nbr.glob_idx: continue"),
  rule='R-accumulate')
m('c09-columns-swapped', ['C09'],
  (EE, "            sobolev[i, 0] += sobolev_time[i][0]", "            sobolev[i, 1] += sobolev_time[i][0]"),
  rule='R-accumulate')
m('c09-imap-unordered', ['C09'],
  (EE, "                    p.map(MP_estim_sobolev_time, range(N), N // (cpu * 8) + 1))",
   "                    p.imap_unordered(MP_estim_sobolev_time, range(N), N // (cpu * 8) + 1))"),
  rule='R-ordered')
m('c09-inner-interval', ['C09'],
  (EE, """                    residual_t, elem_left.space_interval[0],
                    elem_right.space_interval[1], gamma)""",
   """                    residual_t, elem_left.space_interval[0],
                    elem_left.space_interval[1], gamma)"""), rule='R-patch')
m('c09-outer-factor', ['C09'],
  (EE, "        approx = h_t * np.dot(val, self.gauss.weights)",
   "        approx = np.dot(val, self.gauss.weights)"), rule='R-patch')
m('c09-nbr-axis', ['C09'],
  (EE, "        for edge in elem.edges_axis(0):\n            time_neighbours",
   "        for edge in elem.edges_axis(1):\n            time_neighbours"),
  rule='R-patch')

# ---- C14 ------------------------------------------------------------------
m('c14-noreturn', ['C14'],
  (QR, """    elif N == 12:
        return ((""", """    elif N == 12:
        (("""), rule='E1-rule')
m('c14-14-map', ['C14'],
  (N, "        self.semi_1_4_xy = x * (1 - y)", "        self.semi_1_4_xy = x * y"),
  rule='R-singular-measure')
m('c14-14-no2', ['C14'],
  (N, "        self.semi_1_4_weights = 2 * gauss_sqrtinv_2d.weights / y",
   "        self.semi_1_4_weights = gauss_sqrtinv_2d.weights / y"),
  rule='R-singular-measure')
m('c14-14-noy', ['C14'],
  (N, "        self.semi_1_4_weights = 2 * gauss_sqrtinv_2d.weights / y",
   "        self.semi_1_4_weights = 2 * gauss_sqrtinv_2d.weights"),
  rule='R-singular-measure')
m('c14-14-h', ['C14'],
  (N, "        return h**(1 / 2) * np.dot((fx - fxy)**2, self.semi_1_4_weights)",
   "        return h * np.dot((fx - fxy)**2, self.semi_1_4_weights)"),
  rule='R-singular-measure')
m('c14-14-tile', ['C14'],
  (N, "        fx = np.repeat(f(x), len(x))\n        fxy = np.asarray(f(xy))\n        return h**(1 / 2)",
   "        fx = np.tile(f(x), len(x))\n        fxy = np.asarray(f(xy))\n        return h**(1 / 2)"),
  rule='R-singular-measure')
m('c14-pw-points', ['C14'],
  (N, "        points = [np.hstack([1 - x, 1 - x * y]), np.hstack([x * y, x])]",
   "        points = [np.hstack([1 - x, x * y]), np.hstack([x * y, x])]"),
  rule='R-jac')
m('c14-pw-cross-factor', ['C14'],
  (N, "        result += 2 * self.semi_1_2_pw.integrate(slo, a_1, b_1, a_2, b_2)",
   "        result += self.semi_1_2_pw.integrate(slo, a_1, b_1, a_2, b_2)"),
  rule='R-singular-measure')
m('c14-12-factor', ['C14'],
  (N, "        return 2 * h**2 * np.dot((fx - fxy)**2 / xy_sqr, self.semi_1_2_weights)",
   "        return h**2 * np.dot((fx - fxy)**2 / xy_sqr, self.semi_1_2_weights)"),
  rule='R-singular-measure')
m('c14-12-map', ['C14'],
  (N, "        self.semi_1_2_xy = x * y", "        self.semi_1_2_xy = x * (1 - y) * y"),
  rule='R-singular-measure')
m('c14-legendre-order', ['C14'],
  (N, "        self.gauss_leg = gauss_quadrature_scheme(N_poly_1_2)",
   "        self.gauss_leg = gauss_quadrature_scheme(N_poly_1_2 + 2)"),
  rule='R-singular-measure')

# ---- C18 ------------------------------------------------------------------
m('c18-revert-f5', ['C18'],
  (M, "        if self.glue_space and len(initial_space_mesh) - 1 < 3:",
   "        if self.glue_space and len(self.roots) < 3:"), rule='R-slabcount')
m('c18-threshold', ['C18'],
  (M, "        if self.glue_space and len(initial_space_mesh) - 1 < 3:",
   "        if self.glue_space and len(initial_space_mesh) - 1 < 2:"),
  rule='R-slabcount')
m('c18-threshold-twin', ['C18'],
  (M, "        if self.glue_space and len(initial_space_mesh) - 1 < 3:",
   "        if self.glue_space and len(initial_space_mesh) < 4:"),
  expect='silent')
m('c18-one-pass', ['C18'],
  (M, """            leaves = list(self.leaf_elements)
            for elem in leaves:
                self.refine_space(elem)


def Prolongate""", """

def Prolongate"""), rule='R-slabcount')
m('c18-piece-halfopen', ['C18'],
  (M, """                if gamma_space.pw_start[i] <= elem.vertices[
                        0].x < gamma_space.pw_start[i + 1]:""",
   """                if gamma_space.pw_start[i] < elem.vertices[
                        0].x <= gamma_space.pw_start[i + 1]:"""),
  rule='R-pieces')
m('c18-piece-end-vertex', ['C18'],
  (M, """                if gamma_space.pw_start[i] <= elem.vertices[
                        0].x < gamma_space.pw_start[i + 1]:""",
   """                if gamma_space.pw_start[i] <= elem.vertices[
                        2].x < gamma_space.pw_start[i + 1]:"""),
  rule='R-pieces')
m('c18-circle-speed', ['C18'],
  (P, "    return np.vstack([np.cos(x_hat), np.sin(x_hat)])",
   "    return np.vstack([np.cos(2 * x_hat), np.sin(2 * x_hat)])"),
  rule='K9')
m('c18-line-direction', ['C18'],
  (P, "    norm = np.linalg.norm(b - a)\n    direct = (b - a) / norm\n\n    direct = np.copy",
   "    norm = np.linalg.norm(b - a)\n    direct = (b - a)\n\n    direct = np.copy"),
  rule='K9')
m('c18-lshape-vertex', ['C18'],
  (P, "        v3 = np.array([1, 1])\n        v4 = np.array([-1, 1])",
   "        v3 = np.array([1, 2])\n        v4 = np.array([-1, 1])"), rule='K9')
m('c18-offset', ['C18'],
  (P, "            gamma, length = line(a, b, x_start=pw_start[i])",
   "            gamma, length = line(a, b, x_start=0)"), rule='R-pieces')
m('c18-child-piece', ['C18'],
  (M, "            self.gamma_space = parent.gamma_space\n        else:\n            assert levels == (0, 0)",
   "            self.gamma_space = None\n        else:\n            assert levels == (0, 0)"),
  rule='R-inherit')

# ---- C16 ------------------------------------------------------------------
m('c16-revert-f2-isclose', ['C16', 'C08'],
  (IM, """                        if isclose(va[n_axis, 0], v0[n_axis, 0]) and isclose(
                                v1[n_axis, 0], vb[n_axis, 0]):""",
   """                        if isclose(va[n_axis], v0[n_axis]) and isclose(
                                v1[n_axis], vb[n_axis]):"""), rule='R-scalar')
m('c16-revert-f2-flatten', ['C16', 'C08'],
  (IM, "        xy = np.array(xy).flatten()\n", ""), rule='R-scalar')
m('c16-child-vertex', ['C16'],
  (IM, "            Element(vertices=[vi, v12, v2, v23], parent=element),",
   "            Element(vertices=[vi, v12, v2, v3], parent=element),"),
  rule='R-quad-children')
m('c16-no-remove', ['C16'],
  (IM, "        self.leaf_elements.remove(element)\n", ""), rule='R-quad-book')
m('c16-reuse-key', ['C16'],
  (IM, "        if (b, a) in self.__bisect_edge:\n            new_vtx = self.__bisect_edge[(b, a)]",
   "        if (a, b) in self.__bisect_edge:\n            new_vtx = self.__bisect_edge[(a, b)]"),
  rule='R-vreuse')
m('c16-balance-level', ['C16'],
  (IM, "                    assert self.nbrs[(pb, pa)].level == element.level - 1",
   "                    assert self.nbrs[(pb, pa)].level == element.level"),
  rule='R-closure')
m('c16-balance-no-recursion', ['C16'],
  (IM, "                    self.refine(self.nbrs[(pb, pa)])\n", "                    pass\n"),
  rule='R-closure')
m('c16-parent-edge', ['C16'],
  (IM, "        self.parent_edge[(new_vtx, b)] = (a, b)", "        self.parent_edge[(new_vtx, b)] = (b, a)"),
  rule='R-register')
m('c16-contain-one-sided', ['C16'],
  (IM, """                    if va[n_axis] - eps * abs(va[n_axis]) <= v0[n_axis] <= v1[
                            n_axis] <= vb[n_axis] + eps * abs(vb[n_axis]):""",
   """                    if va[n_axis] - eps * abs(va[n_axis]) <= v0[n_axis] <= v1[
                            n_axis]:"""), rule='R-contain')
m('c16-coincide-crossed', ['C16'],
  (IM, """                        if isclose(va[n_axis, 0], v0[n_axis, 0]) and isclose(
                                v1[n_axis, 0], vb[n_axis, 0]):""",
   """                        if isclose(va[n_axis, 0], v1[n_axis, 0]) and isclose(
                                v0[n_axis, 0], vb[n_axis, 0]):"""), rule='R-contain')
m('c16-no-sort', ['C16'],
  (IM, "        if tuple(v0.flatten()) > tuple(v1.flatten()): v0, v1 = v1, v0\n", ""),
  rule='R-contain')
m('c16-interior-vertex', ['C16'],
  (IM, "        vi = Vertex(x=(v0.x + v2.x) / 2,\n                    y=(v0.y + v2.y) / 2,",
   "        vi = Vertex(x=(v0.x + v1.x) / 2,\n                    y=(v0.y + v2.y) / 2,"),
  rule='R-quad-children')

# ---- C08 ------------------------------------------------------------------
m('c08-4b-2b', ['C08'],
  (IP, "        return lambda xy: 1. / (4 * np.pi) * exp1(xy / (4 * b))",
   "        return lambda xy: 1. / (4 * np.pi) * exp1(xy / (2 * b))"), rule='K6')
m('c08-reversed', ['C08'],
  (IP, """        return lambda xy: 1. / (4 * np.pi) * (exp1(xy /
                                                   (4 * b)) - exp1(xy /
                                                                   (4 * a)))""",
   """        return lambda xy: 1. / (4 * np.pi) * (exp1(xy /
                                                   (4 * a)) - exp1(xy /
                                                                   (4 * b)))"""),
  rule='K6')
m('c08-inline-a0', ['C08'],
  (IP, """            if a == 0:
                fx = self.u0(xz) * exp1(xz_y / (4 * b))
            else:
                fx = self.u0(xz) * (exp1(xz_y / (4 * b)) - exp1(xz_y /
                                                                (4 * a)))""",
   """            fx = self.u0(xz) * (exp1(xz_y / (4 * b)) - exp1(xz_y /
                                                            (4 * a)))"""),
  rule='K7')
m('c08-diam', ['C08'],
  (IP, "            val = elem.diam**2 * (d - c) * FPI_INV * np.dot(",
   "            val = elem.diam * (d - c) * FPI_INV * np.dot("), rule='R-prefactor')
m('c08-h3', ['C08'],
  (IP, "                val = h**3 * np.dot(fx, self.duff_3d_id.weights)",
   "                val = h**2 * np.dot(fx, self.duff_3d_id.weights)"), rule='R-prefactor')
m('c08-no-fpi', ['C08'],
  (IP, "            val = elem.diam**2 * (d - c) * FPI_INV * np.dot(",
   "            val = elem.diam**2 * (d - c) * np.dot("), rule='R-prefactor')
m('c08-inline-b', ['C08'],
  (IP, "                fx = self.u0(xz) * exp1(xz_y / (4 * b))",
   "                fx = self.u0(xz) * exp1(xz_y / (2 * b))"), rule='K7')
m('c08-u0-squared', ['C08'],
  (IP, "                fx = self.u0(xz) * exp1(xz_y / (4 * b))",
   "                fx = self.u0(xz) * self.u0(xz) * exp1(xz_y / (4 * b))"),
  rule='R-prefactor')
m('c08-evaluate-kernel', ['C08'],
  (IP, """            return 1. / (4 * np.pi * t) * np.exp(-xy_sqr /
                                                 (4 * t)) * self.u0(y)

        #if (t < 0.01):""", """            return 1. / (4 * np.pi * t) * np.exp(-xy_sqr /
                                                 (2 * t)) * self.u0(y)

        #if (t < 0.01):"""), rule='K6')
m('c03-revert-f9', ['C03'],
  (EE, "                    result[i] += np.squeeze(M0u0(t, x.reshape(2, 1)))",
   "                    result[i] += M0u0(t, x.reshape(2, 1))"), rule='R-scalar')

# ---- refactoring twins: behaviour preserving; must never give exit 1 -------
ALLP = ['C01', 'C02', 'C03', 'C04', 'C06', 'C07', 'C08', 'C09', 'C10', 'C11',
        'C12', 'C14', 'C15', 'C16', 'C17', 'C18', 'C19', 'C20']


def r(id, props, file, qual, old, new):
    CORPUS.append(dict(id=id, props=list(props),
                       edits=[('rename', file, qual, old, new)], rule=None,
                       expect='noalarm'))


r('ren-hh2-diff', ['C20', 'C03'], HH, 'HH2ErrorEstimator.estimate', 'diff', 'delta')
r('ren-hh2-rhs', ['C20', 'C03'], HH, 'HH2ErrorEstimator.estimate', 'rhs', 'load')
r('ren-hier-vphi', ['C20', 'C03'], HI, 'HierarchicalErrorEstimator.estimate', 'VPhi', 'V_phi')
r('ren-hier-children', ['C20', 'C11'], HI, 'DummyElement.uniform_refinement', 'children', 'kids')
r('ren-l2-res', ['C09'], EE, 'ErrorEstimator.weighted_l2', 'res_l2', 'rho')
r('ren-bilform-gtime', ['C01', 'C12', 'C03', 'C04'], SL, 'SingleLayerOperator.bilform', 'G_time', 'kernel_t')
r('ren-integrate-hx', ['C01', 'C11', 'C12'], SL, 'SingleLayerOperator.__integrate', 'h_x', 'len_x')
r('ren-refine-child1', ['C02', 'C10'], M, 'Mesh.refine_axis', 'child1', 'first')
r('ren-refine-edges', ['C02', 'C10'], M, 'Mesh.refine_axis', 'edges', 'sides')
r('ren-sobolev-ips', ['C09', 'C17'], EE, 'ErrorEstimator.sobolev_space', 'ips', 'pairs')
r('ren-evaluate-vec', ['C07', 'C03', 'C04'], SL, 'SingleLayerOperator.evaluate', 'vec', 'values')
r('ren-evaluate-da', ['C07'], SL, 'SingleLayerOperator.evaluate', 'd_a', 'dist_a')
r('ren-dorfler-cumsum', ['C06'], M, 'Mesh.dorfler_refine_isotropic', 'cumsum', 'acc')
r('ren-dorfler-marked', ['C06', 'C02'], M, 'Mesh.dorfler_refine_anisotropic', 'marked_space', 'space_list')
r('ren-grading-marked', ['C19', 'C02'], M, 'Mesh.refine_grading', 'marked_time', 'too_long')
r('ren-slo-xysqr', ['C14', 'C09'], N, 'Slobodeckij.seminorm_h_1_2', 'xy_sqr', 'dist2')
r('ren-slo-x', ['C14', 'C09'], N, 'Slobodeckij.__init__', 'gauss_x_leg_2d', 'tensor')
r('ren-linform-val', ['C08'], IP, 'InitialOperator.linform', 'val', 'contribution')
r('ren-linform-fx', ['C08'], IP, 'InitialOperator.linform', 'fx', 'values')
r('ren-quad-fx', ['C15', 'C14'], Q, 'QuadScheme2D.integrate', 'fx', 'values')
r('ren-duffy-xy', ['C15', 'C01'], Q, 'DuffyScheme2D.__init__', 'xy', 'prod')
r('ren-mesh-e1', ['C02', 'C10'], M, 'Mesh.__init__', 'e1', 'bottom')
r('ren-bdr-parent', ['C16', 'C08'], IM, 'InitialMesh.refine_msh_bdr', 'parent', 'container')
r('ren-quad-children', ['C16'], IM, 'InitialMesh.refine', 'children', 'kids')
r('ren-dtik-result', ['C01', 'C04', 'C12'], SL, 'double_time_integrated_kernel', 'result', 'total')
r('ren-matrix-mat', ['C04', 'C17', 'C03'], SL, 'SingleLayerOperator.bilform_matrix', 'mat', 'matrix')
r('ren-estimate-sobolev', ['C09', 'C17'], EE, 'ErrorEstimator.estimate_sobolev', 'sobolev', 'out')
r('ren-residual-vphi', ['C03', 'C04'], EE, 'ErrorEstimator.residual', 'VPhi', 'acc')
r('ren-main-rhs', ['C03'], EX, '<main>', 'rhs', 'load')
r('ren-poly-gamma', ['C18', 'C01'], P, 'PiecewisePolygon.__init__', 'gamma', 'piece')
r('ren-meshparam-leaves', ['C18', 'C02'], M, 'MeshParametrized.__init__', 'leaves', 'snapshot')
r('ren-linformvec-vec', ['C17', 'C08'], IP, 'InitialOperator.linform_vector', 'vec', 'values')
r('ren-fint2-val', ['C01'], SLX, 'fint_2', 'val', 'value')
r('ren-se1-result', ['C07'], SLX, 'spacetime_evaluated_1', 'result', 'total')

# ---- later additions ---------------------------------------------------------
m('c05-revert-f10', ['C05'],
  (Q, """    for p(x) for deg(p) <= N_poly.  \"\"\"
    N = N_poly // 2 + 1
    nodes, weights = gauss_x_quadrature_rule(N)""",
   """    for p(x) for deg(p) <= N_poly.  \"\"\"
    N = (N_poly + 1) // 2
    nodes, weights = gauss_x_quadrature_rule(N)"""), rule='E1-constructor-map')
m('c05-log-key-shift', ['C05'],
  (Q, """    N = (N_poly + 1) // 2
    nodes, weights = gauss_log_quadrature_rule(N)""",
   """    N = max((N_poly + 1) // 2 - 1, 0)
    nodes, weights = gauss_log_quadrature_rule(N)"""), rule='E1-constructor-map')
m('c16-exact-eq', ['C16'],
  (IM, """                        if isclose(va[n_axis, 0], v0[n_axis, 0]) and isclose(
                                v1[n_axis, 0], vb[n_axis, 0]):""",
   """                        if va[n_axis, 0] == v0[n_axis, 0] and v1[
                                n_axis, 0] == vb[n_axis, 0]:"""), rule='R-tolerance')
m('c16-abs-tol', ['C16'],
  (IM, "            if isclose(vtx.x, xy[0]) and isclose(vtx.y, xy[1]):",
   "            if isclose(vtx.x, xy[0], abs_tol=1e-3) and isclose(vtx.y, xy[1], abs_tol=1e-3):"),
  rule='R-tolerance')

# ---- other behaviour-preserving refactorings (must not alarm) ---------------
def t(id, props, *edits):
    CORPUS.append(dict(id=id, props=list(props), edits=list(edits),
                       rule=None, expect='noalarm'))


t('twin-hh2-reorder', ['C20', 'C03'],
  (HH, """        if self.g:
            rhs += self.g(elems_fine)

        # Evaluate the RHS on the fine mesh.
        if self.M0:
            rhs -= self.M0.linform_vector(elems=elems_fine, use_mp=self.use_mp)""",
   """        if self.M0:
            rhs -= self.M0.linform_vector(elems=elems_fine, use_mp=self.use_mp)
        if self.g:
            rhs += self.g(elems_fine)"""))
t('twin-hh2-print', ['C20', 'C03'],
  (HH, "        # Prolongate the normal phi.\n", "        print('prolongating')\n"))
t('twin-refine-assert', ['C02', 'C10'],
  (M, "        # Create the two new elements\n", "        assert len(new_vertices) == 2\n"))
t('twin-integrate-print', ['C01', 'C11', 'C12'],
  (SL, "        # If are the same panel.\n", "        assert h_x > 0\n"))
t('twin-evaluate-comment', ['C07', 'C03'],
  (SL, "        # Calculate distance of x_hat to both endpoints.\n", "        _ = None\n"))
t('twin-dorfler-print', ['C06'],
  (M, "        # First refine in time.\n        marked.sort(key=lambda elem: elem.level_time)",
   "        print('time pass')\n        marked.sort(key=lambda elem: elem.level_time)"))
t('twin-weighted-sq', ['C09'],
  (EE, "        res_sqr = np.asarray(residual(t, x_hat, elem.gamma_space))**2",
   "        res = np.asarray(residual(t, x_hat, elem.gamma_space))\n        res_sqr = res * res"))
t('twin-bilform-matrix-print', ['C04', 'C17', 'C03'],
  (SL, "        time_mat_begin = time.time()\n", "        time_mat_begin = time.time()\n        print('assembling', N, M)\n"))
t('twin-sobolev-sum', ['C09'],
  (EE, """        assert len(ips) >= 1
        return math.fsum([val for elem, val in ips]), ips

    def sobolev_time""", """        assert len(ips) >= 1
        total = math.fsum([val for elem, val in ips])
        return total, ips

    def sobolev_time"""))
t('twin-linform-h', ['C08'],
  (IP, "                h = d - c\n                math.isclose(elem.diam, h)", "                h = d - c"))
t('twin-quad-integrate-temp', ['C15', 'C14'],
  (Q, """        fx = np.asarray(f(x))
        return (d - c) * (b - a) * np.dot(fx, self.weights)""",
   """        fx = np.asarray(f(x))
        area = (d - c) * (b - a)
        return area * np.dot(fx, self.weights)"""))
t('twin-duffy-weights-order', ['C15', 'C01'],
  (Q, "        weights = scheme2d.weights * x\n        if symmetric:", "        weights = x * scheme2d.weights\n        if symmetric:"))
t('twin-mesh-init-comment', ['C02', 'C10'],
  (M, "                # Set boundary edges correctly.\n", "                # boundary flags\n"))
t('twin-grading-print', ['C19'],
  (M, "            marked_time.sort(key=lambda elem: elem.level_time)\n            for elem in marked_time:\n                self.refine_time(elem)\n\n            # Replace",
   "            marked_time.sort(key=lambda elem: elem.level_time)\n            print(len(marked_time))\n            for elem in marked_time:\n                self.refine_time(elem)\n\n            # Replace"))
t('twin-prolongate-assert', ['C20'],
  (M, "    vec_fine = np.zeros(len(elems_fine))\n", "    vec_fine = np.zeros(len(elems_fine))\n    assert len(vec_coarse) == len(elems_coarse)\n"))
t('twin-problems-half', ['C03', 'C08'],
  (PR, "        return (1 / 4) * (erf(\n            (1 - a) / (2 * np.sqrt(t))) + erf(a / (2 * np.sqrt(t)))) * (erf(",
   "        return 0.25 * (erf(\n            (1 - a) / (2 * np.sqrt(t))) + erf(a / (2 * np.sqrt(t)))) * (erf("))
t('twin-fint1-reorder', ['C01'],
  (SLX, """            4 * z * (exp(-(h**2 / (4 * z))) * (h**2 - 12 * z) + 12 * z),
            -64 * h * PI_SQRT * z**(3 / 2) * erf(h / (2 * sqrt(z))),""",
   """            -64 * h * PI_SQRT * z**(3 / 2) * erf(h / (2 * sqrt(z))),
            4 * z * (exp(-(h**2 / (4 * z))) * (h**2 - 12 * z) + 12 * z),"""))
t('twin-cache-print', ['C17'],
  (IP, '                print("Stored Initial Operator to {}".format(cache_fn))\n', '                pass\n'))
t('twin-leafbook-order', ['C02'],
  (M, """        self.leaf_elements.pop(elem)
        self.leaf_elements.setdefault(child1)
        self.leaf_elements.setdefault(child2)""",
   """        self.leaf_elements.setdefault(child1)
        self.leaf_elements.setdefault(child2)
        self.leaf_elements.pop(elem)"""))
m('c01-assert-contained', ['C01', 'C11'],
  (SL, "        if a == c:\n            assert b < d", "        if a == c:\n            assert b > d"),
  rule='R-assert')
m('geo-space-interval', ['C01', 'C02', 'C04'],
  (M, "        self.space_interval = self.vertices[0].x, self.vertices[2].x",
   "        self.space_interval = self.vertices[0].x, self.vertices[3].x"),
  rule='R-geometry')
m('geo-time-interval', ['C01', 'C02', 'C04'],
  (M, "        self.time_interval = self.vertices[0].t, self.vertices[2].t",
   "        self.time_interval = self.vertices[0].t, self.vertices[1].t"),
  rule='R-geometry')
t('twin-hier-commute', ['C20'],
  (HI, "            estims.append((estim_loc[0] + 0.5 * estim_loc[2],\n                           estim_loc[1] + 0.5 * estim_loc[2]))",
   "            estims.append((0.5 * estim_loc[2] + estim_loc[0],\n                           estim_loc[2] / 2 + estim_loc[1]))"))
t('twin-hh2-diff-sign', ['C20'],
  (HH, "        diff = Phi_fine - Phi_prolong", "        diff = -(Phi_prolong - Phi_fine)"))
t('twin-norm-commute', ['C14', 'C09'],
  (N, "        return 2 * h**2 * np.dot((fx - fxy)**2 / xy_sqr, self.semi_1_2_weights)",
   "        return h * h * 2 * np.dot((fxy - fx)**2 / xy_sqr, self.semi_1_2_weights)"))
t('twin-outer-commute', ['C09'],
  (EE, "        approx = h_t * np.dot(val, self.gauss.weights)", "        approx = np.dot(self.gauss.weights, val) * h_t"))
DTIK_OLD = """        if b > d:
            z = b - d
            result += FPI_INV * (z * np.exp(-x_sqr / z) +
                                 (x_sqr + z) * expi(-x_sqr / z))
        if b > c:
            z = b - c
            result -= FPI_INV * (z * np.exp(-x_sqr / z) +
                                 (x_sqr + z) * expi(-x_sqr / z))
        if a > c:
            z = a - c
            result += FPI_INV * (z * np.exp(-x_sqr / z) +
                                 (x_sqr + z) * expi(-x_sqr / z))
        if a > d:
            z = a - d
            result -= FPI_INV * (z * np.exp(-x_sqr / z) +
                                 (x_sqr + z) * expi(-x_sqr / z))
"""
CORPUS.append(dict(id='twin-dtik-loop-continue', props=['C01', 'C04', 'C12'],
                   edits=[(SL, DTIK_OLD, """        for sign, p, q in ((1, b, d), (-1, b, c), (1, a, c), (-1, a, d)):
            if p <= q:
                continue
            z = p - q
            result += sign * FPI_INV * (z * np.exp(-x_sqr / z) +
                                        (x_sqr + z) * expi(-x_sqr / z))
""")], rule=None, expect='silent'))
m('c04-dtik-loop-break', ['C01', 'C04', 'C12'],
  (SL, DTIK_OLD, """        for sign, z in ((-1, b - c), (1, a - c), (1, b - d), (-1, a - d)):
            if z <= 0:
                break
            result += sign * FPI_INV * (z * np.exp(-x_sqr / z) +
                                        (x_sqr + z) * expi(-x_sqr / z))
"""), rule='R-fourterm')
ACC_OLD = """        for i, elem in zip(range(N), elems):
            sobolev[i, 0] += sobolev_time[i][0]
            for elem_nbr, val_nbr in sobolev_time[i][1]:
                if elem.glob_idx < elem_nbr:
                    sobolev[glob_2_loc[elem_nbr], 0] += val_nbr
            sobolev[i, 1] += sobolev_space[i][0]
            for elem_nbr, val_nbr in sobolev_space[i][1]:
                if elem.glob_idx < elem_nbr:
                    sobolev[glob_2_loc[elem_nbr], 1] += val_nbr
"""
CORPUS.append(dict(id='twin-accumulate-folded', props=['C09'], edits=[(EE, ACC_OLD, """        for i in range(N):
            for ax, (err, ips) in enumerate(
                (sobolev_time[i], sobolev_space[i])):
                sobolev[i, ax] += err
                for elem_nbr, val_nbr in ips:
                    j = glob_2_loc[elem_nbr]
                    if elems[i].glob_idx < elem_nbr: sobolev[j, ax] += val_nbr
""")], rule=None, expect='noalarm'))
m('c09-accumulate-folded-position', ['C09'],
  (EE, ACC_OLD, """        for i in range(N):
            for ax, (err, ips) in enumerate(
                (sobolev_time[i], sobolev_space[i])):
                sobolev[i, ax] += err
                for elem_nbr, val_nbr in ips:
                    j = glob_2_loc[elem_nbr]
                    if i < j: sobolev[j, ax] += val_nbr
"""), rule='R-accumulate')
LEFT_OLD = """    assert x_a == y_a and x_b < y_b
    return spacetime_integrated_kernel(
        t_a, t_b, s_a, s_b, x_a, x_b, y_a, x_b) + spacetime_integrated_kernel(
            t_a, t_b, s_a, s_b, x_a, x_b, x_b, y_b)
"""
CORPUS.append(dict(id='twin-exact-unrolled', props=['C01', 'C11', 'C12'], edits=[(SLX, LEFT_OLD, """    assert x_a == y_a and x_b < y_b
    return spacetime_integrated_kernel_1(
        t_a, t_b, s_a, s_b, x_b - x_a) + spacetime_integrated_kernel_2(
            t_a, t_b, s_a, s_b, x_b - x_a, y_b - x_b)
""")], rule=None, expect='noalarm'))
m('c12-exact-unrolled-stale', ['C01', 'C11', 'C12'],
  (SLX, LEFT_OLD, """    assert x_a == y_a and x_b < y_b
    return spacetime_integrated_kernel_1(
        t_a, t_b, s_a, s_b, x_b - x_a) + spacetime_integrated_kernel_2(
            t_a, t_b, s_a, s_b, x_b - x_a, y_b - y_a)
"""), rule='R-partition')
m('c15-degenerate-isclose', ['C15'],
  (Q, "        if a == b: return 0\n", "        if np.isclose(a, b): return 0\n"), rule='R-affine')
m('c20-rhs-elif', ['C20', 'C03'],
  (HH, """        if self.g:
            rhs += self.g(elems_fine)

        # Evaluate the RHS on the fine mesh.
        if self.M0:
            rhs -= self.M0.linform_vector(elems=elems_fine, use_mp=self.use_mp)""",
   """        if self.M0:
            rhs = -self.M0.linform_vector(elems=elems_fine, use_mp=self.use_mp)
        elif self.g:
            rhs = self.g(elems_fine)"""), rule='R-signs')
m('c07-mirror-reversed', ['C07', 'C15'],
  (Q, "            self._mirror = QuadScheme1D(1 - self.points, self.weights)",
   "            self._mirror = QuadScheme1D((1 - self.points)[::-1], self.weights[::-1])"),
  rule='R-mirror')
CORPUS.append(dict(id='twin-dtik-helper-nested', props=['C01', 'C04', 'C12', 'C11'],
                   edits=[(SL, DTIK_OLD, """        def F(z):
            return FPI_INV * (z * np.exp(-x_sqr / z) +
                              (x_sqr + z) * expi(-x_sqr / z))

        if b > d:
            result += F(b - d)
        if b > c:
            result -= F(b - c)
        if a > c:
            result += F(a - c)
        if a > d:
            result -= F(a - d)
""")], rule=None, expect='noalarm'))
CORPUS.append(dict(id='twin-dtik-helper-lambda', props=['C01', 'C04', 'C12'],
                   edits=[(SL, DTIK_OLD, """        F = lambda z: FPI_INV * (z * np.exp(-x_sqr / z) +
                                 (x_sqr + z) * expi(-x_sqr / z))
        if b > d:
            result += F(b - d)
        if b > c:
            result -= F(b - c)
        if a > c:
            result += F(a - c)
        if a > d:
            result -= F(a - d)
""")], rule=None, expect='noalarm'))

# ---- C19: memoised power, non-default refine calls -------------------------
GRADING_CLS_OLD = """                if elem.h_t / K >= elem.h_x**sigma:
                    marked_time.append(elem)
                elif elem.h_x**sigma >= K * elem.h_t:
                    marked_space.append(elem)
                else:
                    assert elem.h_t / K < elem.h_x**sigma < K * elem.h_t
"""
m('c19-memo-self', ['C19'],
  (M, "        self.N_elements = len(roots)\n",
   "        self.N_elements = len(roots)\n        self.h_x_pow = {}\n"),
  (M, GRADING_CLS_OLD, """                p = self.h_x_pow.get(elem.h_x)
                if p is None:
                    p = self.h_x_pow[elem.h_x] = elem.h_x**sigma
                if elem.h_t / K >= p:
                    marked_time.append(elem)
                elif p >= K * elem.h_t:
                    marked_space.append(elem)
"""), rule='R-memo')
t('twin-c19-memo-keyed', ['C19'],
  (M, "        self.N_elements = len(roots)\n",
   "        self.N_elements = len(roots)\n        self.h_x_pow = {}\n"),
  (M, GRADING_CLS_OLD, """                p = self.h_x_pow.get((elem.h_x, sigma))
                if p is None:
                    p = self.h_x_pow[(elem.h_x, sigma)] = elem.h_x**sigma
                if elem.h_t / K >= p:
                    marked_time.append(elem)
                elif p >= K * elem.h_t:
                    marked_space.append(elem)
"""))
t('twin-c19-memo-local', ['C19'],
  (M, "        marked_time = True\n",
   "        marked_time = True\n        pw = {}\n"),
  (M, GRADING_CLS_OLD, """                p = pw.get(elem.h_x)
                if p is None:
                    p = pw[elem.h_x] = elem.h_x**sigma
                if elem.h_t / K >= p:
                    marked_time.append(elem)
                elif p >= K * elem.h_t:
                    marked_space.append(elem)
"""))

# ---- R-resolve: the analysed definition is the one that runs ---------------
m('resolve-decorator', ['C01', 'C12'],
  (SLX, "def spacetime_integrated_kernel_1(",
   "def _memo(f):\n    return f\n\n\n@_memo\ndef spacetime_integrated_kernel_1("),
  rule='R-resolve')
m('resolve-monkeypatch', ['C02', 'C19'],
  (M, "def Prolongate(", "Mesh.refine_time = Mesh.refine_space\n\n\ndef Prolongate("),
  rule='R-resolve')
m('resolve-setattr-computed', ['C02', 'C10'],
  (M, "        self.parent = parent\n        self.children = []\n",
   "        self.parent = parent\n        self.children = []\n        for k_, v_ in (vars(parent).items() if parent else ()):\n            if k_.startswith('_'):\n                setattr(self, k_, v_)\n"),
  rule='R-resolve')
m('resolve-eval', ['C06'],
  (M, "        assert len(eta_sqr) == N\n        s_idx = list(reversed(np.argsort(eta_sqr)))",
   "        assert len(eta_sqr) == N\n        theta = eval(repr(theta))\n        s_idx = list(reversed(np.argsort(eta_sqr)))"),
  rule='R-resolve')

# ---- round 5 rules ----------------------------------------------------------
m('c16-vertex-early', ['C16'],
  (IM, """        v0, v1, v2, v3 = element.vertices

        # Bisect all edges.
""", """        v0, v1, v2, v3 = element.vertices
        vi = Vertex(x=(v0.x + v2.x) / 2,
                    y=(v0.y + v2.y) / 2,
                    idx=len(self.vertices))

        # Bisect all edges.
"""),
  (IM, """        # Create interior vertex.
        vi = Vertex(x=(v0.x + v2.x) / 2,
                    y=(v0.y + v2.y) / 2,
                    idx=len(self.vertices))
        self.vertices.append(vi)""", "        self.vertices.append(vi)"),
  rule='R-quad-children')
m('c16-bounded-descent', ['C16'],
  (IM, """        children = self.leaf_elements
        while True:""", """        children = self.leaf_elements
        for _ in range(12):"""), rule='R-contain')
m('c18-no-exact-closure', ['C18'],
  (P, """        if closed:
            assert (np.all(vertices[0] == vertices[-1]))
""", ""), rule='R-pieces')
m('c18-closure-allclose', ['C18'],
  (P, "            assert (np.all(vertices[0] == vertices[-1]))",
   "            assert np.allclose(vertices[0], vertices[-1])"),
  rule='R-pieces')
m('c07-wrap-parameter', ['C07'],
  (SL, "        x = self.mesh.gamma_space.eval(x_hat)\n        for j, elem_trial in enumerate(elems):",
   "        x_hat = x_hat % self.gamma_len\n        x = self.mesh.gamma_space.eval(x_hat)\n        for j, elem_trial in enumerate(elems):"),
  rule='R-passthrough')
m('c07-vector-shifted-index', ['C07'],
  (SL, "            vec[j] = self.evaluate(elem_trial, t, x_hat, x)",
   "            vec[j - 1] = self.evaluate(elem_trial, t, x_hat, x)"),
  rule='R-passthrough')
m('c19-counted-sweeps', ['C19'],
  (M, "        while marked_space or marked_time:",
   "        for _ in range(64):\n            if not (marked_space or marked_time):\n                break"),
  rule='R-window')
t('twin-c07-vector-temp', ['C07'],
  (SL, "        x = self.mesh.gamma_space.eval(x_hat)\n        for j, elem_trial in enumerate(elems):\n            vec[j] = self.evaluate(elem_trial, t, x_hat, x)",
   "        gamma = self.mesh.gamma_space\n        pt = gamma.eval(x_hat)\n        for j, elem_trial in enumerate(elems):\n            vec[j] = self.evaluate(elem_trial, t, x_hat, pt)"))
t('twin-c06-sorted-header', ['C06', 'C02'],
  (M, """        marked.sort(key=lambda elem: elem.level_time)
        children_time = []
        for elem in marked:
            assert not elem.children""", """        children_time = []
        for elem in sorted(marked, key=lambda elem: elem.level_time):
            assert not elem.children"""))
t('twin-c18-closure-array-equal', ['C18'],
  (P, "            assert (np.all(vertices[0] == vertices[-1]))",
   "            assert np.array_equal(vertices[0], vertices[-1])"))
t('twin-c16-vertex-temp', ['C16'],
  (IM, """                    idx=len(self.vertices))
        self.vertices.append(vi)""", """                    idx=len(self.vertices))
        centre = (vi.x, vi.y)
        self.vertices.append(vi)"""))
