#!/bin/bash
# usage: tools/try_patch.sh <patch.diff> PROP [PROP...]   -- run checks against a scratch copy with the patch applied
set -e
patch=$1; shift
d=$(mktemp -d /tmp/trypatch_XXXX)
mkdir $d/repo
(cd /repo && tar --exclude=.git --exclude=__pycache__ -cf - .) | tar -xf - -C $d/repo
(cd $d/repo && patch -p1 -s < $patch)
for p in "$@"; do
  (cd /verif && STBEM_OUT=$d/out python3-vt -m stbem_static $p --repo $d/repo | grep -E "VIOLATION|ANALYSIS-ERROR|^  [A-Z]" | grep -v "rule " | cut -c1-260 ; echo "   -> $p rc=${PIPESTATUS[0]}")
done
rm -rf $d
