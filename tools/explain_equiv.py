#!/usr/bin/env python3
"""Debugging aid for stbem_static/canon.py: for a patch, shows where the decision
tree of each still-different function first departs from its reference version.
usage: python3-vt tools/explain_equiv.py <patch.diff> [qualname...]"""
import sys, ast, os, subprocess, tempfile, shutil
sys.path.insert(0,'/verif')
from stbem_static import core, canon
patch=sys.argv[1]; only=sys.argv[2:] 
d=tempfile.mkdtemp(prefix='exp_')
subprocess.run('cd /repo && tar --exclude=.git --exclude=__pycache__ -cf - . | tar -xf - -C %s'%d,shell=True,check=True)
subprocess.run('cd %s && patch -p1 -s < %s'%(d,patch),shell=True,check=True)
prog=core.Program(d)
trees=[m.tree for m in prog.modules.values()]+[m.ref_tree for m in prog.modules.values() if m.ref_tree is not None]
o=canon.Oracle(trees)
for rel,m in prog.modules.items():
    if m.ref_tree is None: continue
    print(rel, m.normalised)
    rf=dict(core._top_functions(m.ref_tree))
    for q,n in core._top_functions(m.tree):
        if q in rf and not isinstance(n,ast.If) and ast.dump(rf[q])!=ast.dump(n):
            if only and q not in only: continue
            print('==',q); print(canon.explain(rf[q],n,o))
shutil.rmtree(d)
