#!/usr/bin/env python3
"""Quick regression over the filed seeded changes: each patch is applied to a
scratch copy of /repo's working tree and only the checks recorded in its
meta.json as detecting it (`detected_by`; the check of its own property first)
are re-run.  Reports every change for which no recorded check answers exit 1
any more.  usage: tools/seeded_replay.py [-j N] [--max-checks K] [ids...]"""
import json
import os
import shutil
import subprocess
import sys
import tempfile
from concurrent.futures import ThreadPoolExecutor

VERIF = os.path.dirname(os.path.dirname(os.path.abspath(__file__)))
sys.path.insert(0, os.path.join(VERIF, 'selftest'))
sys.path.insert(0, os.path.join(VERIF, 'tools'))
from run import make_copy  # noqa
from triage_seeded import run_checks  # noqa


def one(item):
    sid, patch, props = item
    base = tempfile.mkdtemp(prefix='srep_')
    root = os.path.join(base, 'repo')
    make_copy(root)
    r = subprocess.run(['patch', '-p1', '-s', '-i', patch], cwd=root,
                       capture_output=True, text=True)
    if r.returncode != 0:
        shutil.rmtree(base, ignore_errors=True)
        return sid, {}, 'patch does not apply'
    got = {}
    for p in props:
        got.update(run_checks(root, [p]))
        if got[p]['rc'] == 1:
            break
    shutil.rmtree(base, ignore_errors=True)
    return sid, got, None


def main():
    argv = sys.argv[1:]
    j, kmax = 12, 3
    if '-j' in argv:
        i = argv.index('-j'); j = int(argv[i + 1]); del argv[i:i + 2]
    if '--max-checks' in argv:
        i = argv.index('--max-checks'); kmax = int(argv[i + 1]); del argv[i:i + 2]
    d = os.path.join(VERIF, 'seeded')
    items = []
    for sid in sorted(os.listdir(d)):
        mp = os.path.join(d, sid, 'meta.json')
        if not os.path.isfile(mp) or (argv and sid not in argv):
            continue
        meta = json.load(open(mp))
        own = meta.get('breaks_property') or meta.get('property')
        det = list(meta.get('detected_by') or {})
        props = ([own] if own in det else []) + [p for p in det if p != own]
        if not props:
            props = [own]
            expect = 2
        else:
            expect = 1
        items.append((sid, os.path.join(d, sid, 'patch.diff'), props[:kmax],
                      expect))
    bad = 0
    with ThreadPoolExecutor(j) as ex:
        for (sid, got, err), it in zip(
                ex.map(one, [i[:3] for i in items]), items):
            rcs = {p: v['rc'] for p, v in got.items()}
            best = 1 if 1 in rcs.values() else (2 if 2 in rcs.values() else 0)
            ok = err is None and (best == 1 or best == it[3])
            if not ok:
                bad += 1
            print('%-10s %s %s %s' % (sid, 'ok ' if ok else 'LOST', rcs,
                                      err or ''), flush=True)
    print('seeded replay: %d changes, %d no longer answered as recorded' %
          (len(items), bad))
    sys.exit(1 if bad else 0)


if __name__ == '__main__':
    main()
