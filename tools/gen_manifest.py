#!/usr/bin/env python3
"""Regenerates /verif/MANIFEST.json from the table below (kept by hand)."""
import json
import os

HERE = os.path.dirname(os.path.dirname(os.path.abspath(__file__)))

CLAIMS = {
    'C05': dict(
        category='proof',
        text='Finite space decided completely: every branch of the seven '
        'rule tables is read from the source characters and all moment '
        'conditions of its advertised class are evaluated in interval '
        'arithmetic (80/200 digits) on the literals and on their double '
        'roundings, plus returned-ness, lengths, open interval, sign, '
        'exported key lists, constructor degree maps, literal requests.',
        design_ref='DESIGN.md section 3 E1, section 4 C05',
        note='Trusted: CPython ast, mpmath.iv, the closed-form moments.  '
        'np.dot summation order is not modelled.  Two rules (gauss_log keys '
        '15, 31) are known findings for the 1e-30 literal bound only.',
        technique='AST literal-table extraction + exact/interval moment '
        'evaluation (static, exhaustive)',
        engine='E1-tables'),
}

CLAIMS['C04'] = dict(
    category='other',
    text='Static shape rules over every causality site: zero exits are '
    'implied acausal, kernel values are returned only under T > S, every '
    'time difference used as denominator/root/positive parameter has an '
    'entailed strict sign, the four-term time kernel has the required '
    '(end point, sign, guard) set with a CAS-certified antiderivative, and '
    'mat[i,j] = bilform(trial_j, test_i) on the inline, serial and pool '
    'paths.  Decides the exact-zero and structure clauses for all inputs; '
    'does not decide the rounding bound.',
    design_ref='DESIGN.md section 3 E3/E7, section 4 C04',
    note='Trusted: ast, the linear fact domain (Fourier-Motzkin), sympy, '
    'the role table (parameter names).  Not decided: -1e-15 rounding bound '
    'and strict positivity (numerical).',
    technique='path-sensitive AST walk with linear-inequality entailment '
    '(guard dominance), def-use index binding, CAS identity certificates',
    engine='E3-causal')

CLAIMS['C06'] = dict(
    category='other',
    text='Both Doerfler functions are matched against the minimal-prefix '
    'loop schema (descending order, mark->accumulate->test->break, '
    'cumsum >= theta^2*total non-strict, total over the whole array, '
    'element/contribution index binding, axis tags from indicator column to '
    'refinement loop) and the refinement loops are shown to iterate '
    'provably-leaf collections (S1/S2/S3) without skipping.  Decides the '
    'prefix and marked-directions clauses for all inputs; not the '
    'minimality of the closure.',
    design_ref='DESIGN.md section 3 E6 (R-mark, R-stale), section 4 C06',
    note='Trusted: ast, sympy normal form of the threshold, paper argument '
    'A.2.  Not decided: smallest 1-irregular refinement / tie independence.',
    technique='loop-schema matching on the AST + handle-provenance '
    '(staleness) abstract interpretation',
    engine='E6-mesh')
CLAIMS['C19'] = dict(
    category='other',
    text='refine_grading: handle provenance of both refinement loops '
    '(level-sorted fresh snapshot; pre-pass snapshot re-resolved through '
    '.children), marking conditions are the exact non-strict complements of '
    'the window in monomial normal form, each list flows to the refinement '
    'of its axis, the sweep repeats while anything is marked (no counted '
    'loop around it, no quantity foreign to h_t, h_x, K, sigma in the '
    'window test).  Decides '
    '"without error" w.r.t. stale handles and "every leaf in the window on '
    'exit"; termination is not decided.',
    design_ref='DESIGN.md section 3 E6 (R-stale, R-window), section 4 C19',
    note='Trusted: ast, sympy, paper argument A.2.  Not decided: '
    'termination.',
    technique='handle-provenance abstract interpretation + monomial normal '
    'form of the marking conditions',
    engine='E6-mesh')

CLAIMS['C02'] = dict(
    category='other',
    text='Decides, on every run, the premises of the inductive invariant '
    'J1-J7 (DESIGN.md A.1): write-ownership frame, symmetric twin stores, '
    'half-edge cross links, flag inheritance, symbolic geometry of both '
    'child constructions (chain, tiling, each edge object used once, level '
    '+1 in the refined axis only), leaf and index bookkeeping, closure '
    'shape (all edges, strictly lower, same axis, before any mutation), '
    'vertex reuse, initial tensor wiring, and stale-handle analysis of the '
    'uniform drivers.  The induction itself is a paper argument.',
    design_ref='DESIGN.md section 3 E6, section 4 C02, appendix A.1/A.2',
    note='Trusted: ast, the paper induction.  Not decided: minimality of the '
    'closure for every history; strict monotonicity of user grids.',
    technique='who-may-write (ownership) check, pairing/ordering rules, '
    'symbolic child-geometry evaluation, handle-provenance analysis over the '
    'AST', engine='E6-mesh')
CLAIMS['C10'] = dict(
    category='other',
    text='Decides the premises of the half-edge invariants J4-J6: symmetric '
    'twin stores, cross-link i <-> 1-i, inheritance of boundary/glue flags, '
    'the four-case lookup ladder of neighbour_elements under exactly the '
    'right path conditions, initial wiring of interior twins / boundary '
    'flags / per-slab seam, ownership of the half-edge state.  The '
    'geometric statement follows on paper.',
    design_ref='DESIGN.md section 3 E6, section 4 C10, appendix A.1',
    note='Trusted: ast, the paper argument J4-J6 => geometric neighbours.  '
    'Not decided: the history-quantified statement itself.',
    technique='pairing / cross-link / typestate-of-lookup rules on the AST '
    'with boolean path facts', engine='E6-mesh')

CLAIMS['C17'] = dict(
    category='other',
    text='Effect and ordering rules over the three assembly paths, the '
    'pool dispatchers and the two cached methods: same call per entry on '
    'every path with rows=test/cols=trial, globals handed over before a '
    'pool that is created per call, order-preserving pool API over '
    'range(n), cache digest depending on curve and every element list with '
    'lossless element reprs and distinct curve reprs, load in a '
    'swallow-and-recompute try, best-effort save, inline path cache-free.  '
    'Decides schedule- and crash-point-independence structurally; bitwise '
    'float equality is not decided.',
    design_ref='DESIGN.md section 3 E7/E8, section 4 C17',
    note='Trusted: ast, fork semantics (workers see globals as of pool '
    'creation), float repr round-trip.  Not decided: md5 collisions; a '
    'corrupt file that still loads with the right shape.',
    technique='effect/ordering analysis on the AST: def-use of globals vs '
    'pool creation, who-may-call pool API, cache-key dependence, try/except '
    'discipline', engine='E8-effects')

CLAIMS['C15'] = dict(
    category='proof',
    text='Polynomial clauses proved for all inputs by exact polynomial '
    'algebra on the lifted constructors: affine maps and prefactors, '
    'mirror stores (including cached back links), tensor layout, Jacobian '
    '= weight multiplier for all 2+1, 6+3 and 3 Duffy maps, push-forward '
    'moments of Lebesgue measure compared exactly up to total degree 6/4 '
    '(quick) and 12/7 (thorough), degree count D-1 / D-2, no in-place '
    'update of shared base weights.  With C05 this is the exactness '
    'theorem A.3.',
    design_ref='DESIGN.md section 3 E5, section 4 C15, appendix A.3',
    note='Trusted: ast, sympy polynomial arithmetic/integration, stated '
    'index functions of numpy repeat/tile/kron/hstack, paper argument '
    'A.3.  Not decided: monotone convergence on log-singular integrands; '
    'push-forward moments beyond the tier degree.',
    technique='symbolic evaluation of constructor bodies over the AST into '
    'polynomial maps + exact Jacobian / moment identities',
    engine='E5-quadalg')

CLAIMS['C01'] = dict(
    category='other',
    text='Decides that the computation is the integral it claims to be, for '
    'all inputs: CAS certificates for the time antiderivatives (K1, K2) and '
    'the four closed forms fint_1..4 (K4), four-term inclusion-exclusion '
    'with guards, positive time differences, exact tiling and precondition '
    'satisfaction on every path of both recursive splitters, grading of '
    'every leaf rule towards the contact / nearest point incl. the seam, '
    'coordinate-to-curve binding and time roles in bilform, evenness, '
    'translation geometry of the closed-form leaves, and that the switch to '
    'the straight-panel closed forms entails a polygonal curve.  The 1e-7 '
    'quadrature accuracy is not decided.',
    design_ref='DESIGN.md section 3 E2/E3/E4, section 4 C01',
    note='Trusted: ast, sympy, the linear fact domain, role binding by '
    'parameter names.  Not decided: accuracy of the log/Duffy rules on the '
    'smooth remainder; cancellation in the closed forms.',
    technique='path-sensitive abstract interpretation with linear-'
    'inequality entailment (partition/precondition/apex rules) + CAS '
    'identity certificates on lifted closed forms',
    engine='E4-panels')
CLAIMS['C11'] = dict(
    category='other',
    text='Decides the exact-arithmetic part: both recursive splitters tile '
    'the parameter rectangle exactly on every path with preconditions met, '
    'so the decomposition is additive; the four virtual quarters tile the '
    'parent in the fixed order and inherit its piece.  The 1e-7 agreement '
    'of different quadrature rules is not decided.',
    design_ref='DESIGN.md section 3 E4/E6, section 4 C11',
    note='Trusted: ast, linear fact domain.  Not decided: numerical '
    'agreement of parent and child quadratures.',
    technique='path-sensitive partition/precondition analysis; symbolic '
    'child geometry', engine='E4-panels')
CLAIMS['C12'] = dict(
    category='other',
    text='Exchange symmetry by construction (coordinate/curve binding in '
    'both orderings + evenness of the kernel in x + argument permutation on '
    'the closed-form path), time-shift invariance by construction (kernels '
    'are functions of time differences, guards compare two time values), '
    'and seam branches graded towards 0~L exactly like interior branches '
    'towards b=c.  Invariance under curve motions to 1e-7 is not decided.',
    design_ref='DESIGN.md section 3 E3/E4, section 4 C12',
    note='Trusted: ast, sympy, linear fact domain.  Not decided: numerical '
    'invariance under rotations/reflections of the curve.',
    technique='binding/evenness/difference-only shape rules + apex analysis '
    'with linear-inequality entailment', engine='E4-panels')

CLAIMS['C07'] = dict(
    category='other',
    text='CAS certificates that the inline time formulas of evaluate equal '
    'the time integral of the kernel in both time cases and that the closed '
    'forms of evaluate_exact / spacetime_evaluated_1 / gint are the '
    'integrals they claim (derivative identities + boundary values + the '
    'right distances); causality exits sound and complete with no path '
    'falling off evaluate_exact; grading end of every 1-D log rule '
    '(in-element split, nearer-end selection with seam-aware distances, '
    'tabulated mirrored/plain points); closed-form routing entails a '
    'straight piece; evaluate_vector passes time and parameter through '
    'unchanged, entry j for leaf j.  Accuracy classes (1e-8 / 5e-4 / 2e-3) not decided.',
    design_ref='DESIGN.md section 3 E2/E3/E4 (R-grading-end), section 4 C07',
    note='Trusted: ast, sympy, linear fact domain.  Not decided: accuracy '
    'of the fixed log rule near the element.',
    technique='CAS identity certificates on lifted formulas + path-'
    'sensitive guard analysis + grading-end shape rules',
    engine='E4-panels')

CLAIMS['C03'] = dict(
    category='other',
    text='Decides the mutual-consistency clause: four term-combination '
    'sites proportional to V + M0 - g, one element list per iteration and '
    'rows = test, pointwise evaluation = time integral of the kernel whose '
    'double integral is the entry (CAS), every shipped M0u0 satisfies the '
    'heat equation with initial trace u0 on its own domain and 0 outside '
    '(CAS, complex erf forms), g-linform = element integral of g, problem/'
    'domain pairing, sound causality skip in the residual, closed-form '
    'routing only on polygons.  The magnitude bound on the element mean of '
    'the residual is numerical and not decided.',
    design_ref='DESIGN.md section 3 E2/E3/E7 (K8, R-signs), section 4 C03',
    note='Trusted: ast, sympy, the erf->sign rewriting at t->0+, linear '
    'fact domain.  Not decided: |int_E r| <= 5e-5 int_E |r|.',
    technique='linear-form sign analysis + index-space def-use + CAS '
    'certificates (heat equation, initial trace, element integrals)',
    engine='E7-signs')
CLAIMS['C20'] = dict(
    category='other',
    text='Child order, flattening, np.repeat prolongation, fine matrix/'
    'load/solve index spaces and energy norm of the h-h/2 estimator; '
    'Mat(fine, coarse) @ Phi, sign patterns computed from the extracted '
    'child order, indicator formula with c^T S c scaling and the e_c/2 '
    'split of the hierarchical estimator; sign conventions; Prolongate as '
    'nearest-ancestor copy.  Numerical equality with a really bisected '
    'mesh is not decided.',
    design_ref='DESIGN.md section 3 E6/E7 (R-children, R-hier), section 4 '
    'C20',
    note='Trusted: ast, numpy semantics of repeat and @.  Not decided: '
    'numerical equality with real bisection; positivity of the scaling '
    '(C13).',
    technique='symbolic child geometry + index-space typing + coefficient-'
    'pattern comparison on the AST', engine='E7-signs')

CLAIMS['C09'] = dict(
    category='other',
    text='Exponent algebra of the weighted-L2 pair; left/right ordering of '
    'every neighbour kind (incl. both seam directions and the self pair) '
    'on every reachable branch; the one-piece seminorm interval is lo < hi '
    'of length h_left + h_right on every feasible path -- which exposes '
    'the recorded finding F6 (seam pair on the one-piece circle); union/'
    'intersection of the patches as defined; complementary strict '
    'producer/consumer comparisons of the symmetry shortcut with column '
    'tags; serial = pool.  Numerical agreement with an independent double '
    'integral is not decided.',
    design_ref='DESIGN.md section 3 E4 (R-patch), section 4 C09, section 5 '
    'F6',
    note='Trusted: ast, sympy, linear fact domain, the adjacency axioms '
    'supplied by C10/C18.  Known finding F6 suppresses exactly the '
    'obligation "seam adjacency, same piece" of __integrate_h_1_2.',
    technique='path-sensitive branch analysis under adjacency axioms with '
    'linear-inequality entailment + monomial algebra + effect rules',
    engine='E4-panels')

CLAIMS['C14'] = dict(
    category='other',
    text='Availability of every named order from returned, moment-verified '
    'table rules; singular-measure identities of the H^1/4 and same-piece '
    'H^1/2 rules (kernel o T)*|det DT| = built-in Gauss weight * explicit '
    'factor with the right power of h; two-piece rule: Jacobians, apex at '
    'the meeting corner, exact tiling moments; evaluation structure '
    '(quadratic in f, translation only through the affine map, flat vs '
    'curve-aware differ only in the distance); tensor layout and affine '
    'maps.  Twelve-digit floating-point agreement is not decided.',
    design_ref='DESIGN.md section 3 E1/E5 (R-singular-measure), section 4 '
    'C14',
    note='Trusted: ast, mpmath.iv, sympy, numpy index semantics.  Not '
    'decided: floating-point agreement to twelve digits; corner reference.',
    technique='literal-table moments + symbolic evaluation of the scheme '
    'constructor into maps/weights + exact measure identities',
    engine='E5-quadalg')

CLAIMS['C18'] = dict(
    category='other',
    text='Unit speed/period of circle, affine unit-speed line(), literal '
    'closed axis-parallel polygons (CAS on the lifted maps); piece offsets '
    'and accumulated break points; piece selection in eval; default grid, '
    'glue iff closed, half-open root piece assignment, inheritance to '
    'children and virtual children, single ownership of gamma_space; the '
    'closed-curve guard depends only on the per-slab count, fires exactly '
    'below three and bisects twice; a polygon declared closed is compared '
    'exactly, first against last vertex.  Arbitrary user polygons are '
    'otherwise run-time checked by the constructor and not decided.',
    design_ref='DESIGN.md section 3 E2 (K9), E6 (R-slabcount), section 4 '
    'C18',
    note='Trusted: ast, sympy.  Assumes user grids contain the break '
    'points.', technique='CAS on lifted curve maps + shape rules + constant '
    'folding of the guard over the slab size', engine='E6-mesh')

CLAIMS['C16'] = dict(
    category='other',
    text='Rank analysis of all scalar contexts for all admitted input '
    'shapes (decides that boundary targeting cannot fail on array-to-scalar '
    'conversion -- the recorded defect F2); symbolic geometry of children '
    'and root meshes; midpoint sharing, registration of edges and parent '
    'edges; balance closure shape with level exactly one less; leaf '
    'bookkeeping (a fresh vertex is appended at once, so idx = position); '
    'the normalisation / containment / coincidence / unbounded descent '
    'structure of the boundary search and unique vertex lookup.  '
    'Termination for all dyadic segments depends on numeric tolerances and '
    'is not decided.',
    design_ref='DESIGN.md section 3 E6/E8 (R-scalar), section 4 C16',
    note='Trusted: ast, the NumPy>=2 scalar-conversion rule.  Not decided: '
    'termination/uniqueness of the returned leaf (tolerances).',
    technique='rank (shape) abstract interpretation + symbolic child '
    'geometry + normalised-AST shape rules', engine='E6-mesh')

CLAIMS['C08'] = dict(
    category='other',
    text='Rank analysis of the scalar contexts between linform and the '
    'domain mesh (the load is computable for every admitted input shape); '
    'CAS certificates for the E1 time kernel incl. the a == 0 case and the '
    'inline copy; prefactor = cell area x segment length x (4 pi)^-1 once '
    'per branch, distances from the mapped points, linearity in u0, '
    'one-identical-cell assertion, sum over all leaf cells; Jacobians, '
    'tiling and degree loss of the two 3-D Duffy rules; pointwise integrand '
    '= G_t u0; shipped closed-form potentials solve the heat equation with '
    'initial trace u0.  The 1e-5 accuracy is not decided.',
    design_ref='DESIGN.md section 3 E2 (K6-K8), E5 (R-prefactor), E8 '
    '(R-scalar), section 4 C08',
    note='Trusted: ast, sympy, NumPy>=2 scalar rule.  Not decided: accuracy '
    'of the 3-D rules; numerical additivity.',
    technique='rank abstract interpretation + CAS certificates + monomial '
    'prefactor algebra + symbolic Duffy maps', engine='E5-quadalg')

PENDING = 'rule set not yet implemented in this build (see DESIGN.md Appendix F for the order)'
NA = {
    'C13':
    'a lower bound on the smallest eigenvalue of the scaled symmetric part '
    'of assembled matrices quantifies over numerical values of all entries '
    'together; no clause of it is visible in the shape of the code (the '
    'index and child-order conventions it relies on are decided under '
    'C04/C20)',
}

ENGINES = [
    ('E0-model', 'stbem_static/core.py',
     'program model over ast: modules, qualified functions, report, '
     'evidence, known findings, exit codes'),
    ('E1-tables', 'stbem_static/tables.py',
     'literal quadrature tables: moments in interval arithmetic'),
    ('E6-mesh', 'stbem_static/stale.py',
     'refinement-driver provenance analysis (stale.py) and mesh discipline '
     'rules (meshrules.py)'),
    ('E8-effects', 'stbem_static/effects.py',
     'pools, module globals, cache key and cache I/O discipline; '
     'indexing.py for index spaces'),
    ('E5-quadalg', 'stbem_static/quadalg.py',
     'symbolic evaluation of scheme constructors; Jacobians and push-forward '
     'moments in exact polynomial arithmetic'),
    ('E4-panels', 'stbem_static/panels.py',
     'panel/interval order analysis of the recursive splitters and of '
     'bilform (partition, precondition, apex, binding, straightness); '
     'hier.py virtual children'),
    ('E7-signs', 'stbem_static/signs.py',
     'linear sign forms, driver index spaces; hier.py (children, patterns, '
     'prolongation); problems_cert.py (K8/K9 certificates)'),
    ('E3-causal', 'stbem_static/causal.py',
     'causality guards and time-difference positivity over absint.py '
     '(path facts, Fourier-Motzkin entailment); kernels.py CAS certificates; '
     'indexing.py index spaces'),
]


def main():
    props = [json.loads(l) for l in open(os.path.join(HERE,
                                                       'properties.jsonl'))]
    checks, na = [], []
    for p in props:
        pid = p['id']
        if pid in CLAIMS:
            c = CLAIMS[pid]
            checks.append({
                'property_id': pid,
                'quick_cmd': 'python3-vt -m stbem_static %s --tier quick' %
                pid,
                'thorough_cmd':
                'python3-vt -m stbem_static %s --tier thorough' % pid,
                'evidence_file': '/verif/evidence/%s.json' % pid,
                'replay_cmd_template':
                'python3-vt -m stbem_static %s --replay {path}' % pid,
                'engine': c['engine'],
                'level_claimed': {
                    'category': c['category'],
                    'text': c['text'],
                    'design_ref': c['design_ref'],
                },
                'level_note': c['note'],
                'technique': c['technique'],
            })
        else:
            na.append({'property_id': pid, 'reason': NA.get(pid, PENDING)})
    served = {}
    for pid, c in CLAIMS.items():
        for e in c['engine'].split('+'):
            served.setdefault(e, []).append(pid)
    man = {
        'version': 1,
        'setup_cmd': 'python3-vt -c "import sympy, mpmath, ast; print(\'stbem_static: no build step; python3-vt with sympy\', sympy.__version__, \'mpmath\', mpmath.__version__)"',
        'hooks': {
            'guard': 'STBEM_VERIF',
            'enable': 'none: the checks read /repo source text only; no hook or instrumentation commits exist',
            'baseline_off_cmd': 'cd /repo && /venv/bin/python -m pytest -ra -q -p no:cacheprovider --timeout=900 --continue-on-collection-errors',
            'source_commits': [],
            'add_only': True,
        },
        'engines': [{
            'name': n,
            'path': p,
            'serves_properties': sorted(served.get(n, [])),
            'kind_free_text': k
        } for n, p, k in ENGINES],
        'checks': checks,
        'not_applicable': na,
        'notes': 'Static analysis only: every check parses /repo working-tree sources with ast on each run and never imports or executes repository code. Exit 0 = all obligations discharged (known findings printed as KNOWN-FINDING), 1 = VIOLATION lines, 2 = ANALYSIS-ERROR (unrecognised shape / vanished anchor / instance floor not met / a dependency changed that no rule examines / equal to the reference only up to added assertions). Before the rules run, today\'s tree is moved towards the copy under /verif/reference by behaviour-preserving rewrites only (renamed functions, inlined new helpers, functions proven equivalent to their reference version by a decision-tree comparison with mod/ref version tags; DESIGN.md 10.6); every rewrite is recorded in the evidence under coverage.normalised. Every check also carries R-resolve (definitions are unique and not rebound in the modules it consulted) and R-dep (DESIGN.md 10.8). Genuine defects repaired in /repo: fix: commits c092a66 1af4b51 63eabab 3aaef6f 2d839ac 8cbad9d 92e8f4e 3e9847f (see known_findings.json, DESIGN.md section 5 and 10.3). Validation of the machinery itself (not run by the registered commands): selftest/run.py, selftest/autotwins.py, tools/seeded_status.py (seeded/INDEX.md), tools/twin_status.py (selftest/TWINS.md), tools/equiv_report.py.',
    }
    with open(os.path.join(HERE, 'MANIFEST.json'), 'w') as fh:
        json.dump(man, fh, indent=1)
        fh.write('\n')
    print('claimed:', [c['property_id'] for c in checks])
    print('not applicable / pending:', [n['property_id'] for n in na])


if __name__ == '__main__':
    main()
