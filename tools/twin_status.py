#!/usr/bin/env python3
"""Run every claimed check against behaviour-preserving refactorings
(<base>/<P>/out/<k>/patch.diff).  None may answer exit 1.
usage: tools/twin_status.py [--base /tmp/wt3] [-j 16] [--props C01,C02] [P ...]
"""
import argparse
import concurrent.futures as cf
import os
import shutil
import subprocess
import sys
import tempfile

ALL = ['C%02d' % i for i in range(1, 21) if i != 13]


def prep(patch):
    d = tempfile.mkdtemp(prefix='twin_')
    os.mkdir(d + '/repo')
    subprocess.run('cd /repo && tar --exclude=.git --exclude=__pycache__ '
                   '-cf - . | tar -xf - -C %s/repo' % d, shell=True,
                   check=True)
    r = subprocess.run('cd %s/repo && patch -p1 -s < %s' % (d, patch),
                       shell=True, capture_output=True, text=True)
    if r.returncode != 0:
        shutil.rmtree(d)
        return None
    return d


def one(args):
    d, prop = args
    env = dict(os.environ, STBEM_OUT=d + '/out-' + prop)
    r = subprocess.run(['python3-vt', '-m', 'stbem_static', prop, '--repo',
                        d + '/repo'], cwd='/verif', env=env,
                       capture_output=True, text=True)
    lines = [l for l in r.stdout.splitlines()
             if l.startswith('ANALYSIS-ERROR') or (
                 l.startswith('  ') and not l.startswith('  rule '))]
    return prop, r.returncode, lines


def main():
    ap = argparse.ArgumentParser()
    ap.add_argument('--base', default='/tmp/wt3')
    ap.add_argument('-j', type=int, default=16)
    ap.add_argument('--props', default=None)
    ap.add_argument('ids', nargs='*')
    a = ap.parse_args()
    props = a.props.split(',') if a.props else ALL
    bad = 0
    for P in sorted(os.listdir(a.base)):
        if a.ids and P not in a.ids:
            continue
        out = os.path.join(a.base, P, 'out')
        if not os.path.isdir(out):
            continue
        for k in sorted(os.listdir(out)):
            patch = os.path.join(out, k, 'patch.diff')
            if not os.path.exists(patch):
                continue
            d = prep(patch)
            if d is None:
                print('%s-%s: patch does not apply' % (P, k))
                continue
            with cf.ThreadPoolExecutor(a.j) as ex:
                res = list(ex.map(one, [(d, p) for p in props]))
            shutil.rmtree(d)
            v = [p for p, rc, _ in res if rc == 1]
            e = [p for p, rc, _ in res if rc == 2]
            o = [p for p, rc, _ in res if rc not in (0, 1, 2)]
            print('%s-%s: alarm=%s giveup=%s other=%s' % (P, k, v, e, o))
            for p, rc, lines in res:
                if rc != 0:
                    for l in lines[:4]:
                        print('     %s rc=%d %s' % (p, rc, l.strip()[:230]))
            sys.stdout.flush()
            bad += len(v)
    print('false alarms:', bad)


if __name__ == '__main__':
    main()
