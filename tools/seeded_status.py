#!/usr/bin/env python3
"""Detection matrix: applies each patch (from /verif/seeded/*/patch.diff, or
with --wt from /tmp/wt/*/out/*/patch.diff) to a scratch copy of /repo's
working tree and runs every implemented property check against it.
usage: tools/seeded_status.py [--wt] [-j N] [--update] [ids...]"""
import json
import os
import shutil
import subprocess
import sys
import tempfile
from concurrent.futures import ThreadPoolExecutor

VERIF = os.path.dirname(os.path.dirname(os.path.abspath(__file__)))
sys.path.insert(0, os.path.join(VERIF, 'selftest'))
sys.path.insert(0, os.path.join(VERIF, 'tools'))
from run import make_copy  # noqa
from triage_seeded import implemented_props, run_checks  # noqa


def one(item):
    sid, patch = item
    base = tempfile.mkdtemp(prefix='sstat_')
    root = os.path.join(base, 'repo')
    make_copy(root)
    r = subprocess.run(['patch', '-p1', '-s', '-i', patch], cwd=root,
                       capture_output=True, text=True)
    if r.returncode != 0:
        shutil.rmtree(base, ignore_errors=True)
        return sid, None, 'patch does not apply: ' + r.stdout[-200:]
    checks = run_checks(root, implemented_props())
    shutil.rmtree(base, ignore_errors=True)
    return sid, checks, None


def main():
    args = [a for a in sys.argv[1:] if not a.startswith('-')]
    wt = '--wt' in sys.argv
    upd = '--update' in sys.argv
    j = 6
    if '-j' in sys.argv:
        j = int(sys.argv[sys.argv.index('-j') + 1])
        args = [a for a in args if a != str(j)]
    items = []
    basedir = '/tmp/wt'
    if '--base' in sys.argv:
        basedir = sys.argv[sys.argv.index('--base') + 1]
        args = [a for a in args if a != basedir]
    if wt:
        for P in sorted(os.listdir(basedir)):
            d = '%s/%s/out' % (basedir, P)
            if not os.path.isdir(d):
                continue
            for k in sorted(os.listdir(d)):
                p = os.path.join(d, k, 'patch.diff')
                if os.path.isfile(p):
                    items.append(('%s-%s' % (P, k), p))
    else:
        d = os.path.join(VERIF, 'seeded')
        for sid in sorted(os.listdir(d)):
            p = os.path.join(d, sid, 'patch.diff')
            if os.path.isfile(p):
                items.append((sid, p))
    if args:
        items = [it for it in items if any(a in it[0] for a in args)]
    missed = 0
    with ThreadPoolExecutor(j) as ex:
        for sid, checks, err in ex.map(one, items):
            if err:
                print('%-8s %s' % (sid, err))
                continue
            flagged = [p for p, v in checks.items() if v['rc'] == 1]
            errs = [p for p, v in checks.items() if v['rc'] == 2]
            own = sid.split('-')[0]
            status = 'DETECTED' if flagged else 'MISSED'
            if not flagged:
                missed += 1
            print('%-8s %-9s own=%s flagged_by=%s analysis_err=%s' %
                  (sid, status, 'yes' if own in flagged else 'no', flagged,
                   errs), flush=True)
            if upd and not wt:
                mp = os.path.join(VERIF, 'seeded', sid, 'meta.json')
                meta = json.load(open(mp))
                meta['detected_by'] = {p: v['lines'][:2] for p, v in
                                       checks.items() if v['rc'] == 1}
                meta['analysis_error_in'] = {p: v['lines'][:1] for p, v in
                                             checks.items() if v['rc'] == 2}
                json.dump(meta, open(mp, 'w'), indent=1)
    print('%d patches, %d missed' % (len(items), missed))


if __name__ == '__main__':
    main()
