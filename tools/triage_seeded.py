#!/usr/bin/env python3
"""Confirms sub-agent mutants and files them under /verif/seeded/.

usage: tools/triage_seeded.py C15 [C04 ...] [--no-tests]
For each /tmp/wt/<P>/out/<k>/ : copy /repo's working tree to a scratch dir,
check the demo passes there, apply patch.diff, check the demo fails, run the
baseline test-suite on the patched copy (same passes), run every implemented
property check against the patched copy, and store patch/demo/meta under
/verif/seeded/<P>-<k>/ with what was run.
"""
import json
import os
import re
import shutil
import subprocess
import sys
import tempfile

VERIF = os.path.dirname(os.path.dirname(os.path.abspath(__file__)))
sys.path.insert(0, os.path.join(VERIF, 'selftest'))
from run import make_copy  # noqa

BASE_PASS = 48


def sh(cmd, cwd=None, timeout=1800, env=None):
    try:
        r = subprocess.run(cmd, cwd=cwd, capture_output=True, text=True,
                           timeout=timeout, env=env)
        return r.returncode, (r.stdout + r.stderr)
    except subprocess.TimeoutExpired:
        return 124, 'TIMEOUT'


def implemented_props():
    d = os.path.join(VERIF, 'stbem_static', 'props')
    return sorted(f[:-3].upper() for f in os.listdir(d)
                  if re.match(r'c\d+\.py$', f))


def run_checks(root, props):
    out = {}
    for p in props:
        env = dict(os.environ, STBEM_OUT=os.path.join(root, '_out'))
        rc, txt = sh(['python3-vt', '-m', 'stbem_static', p, '--repo', root],
                     cwd=VERIF, env=env, timeout=900)
        lines = [l.strip() for l in txt.splitlines()
                 if (l.startswith('  ') and ' at ' in l and 'rule ' not in l)
                 or 'ANALYSIS-ERROR' in l]
        out[p] = {'rc': rc, 'lines': lines[:3]}
    return out


def main():
    base_dir = '/tmp/wt'
    suffix = ''
    argv = list(sys.argv[1:])
    if '--base' in argv:
        i = argv.index('--base')
        base_dir = argv[i + 1]
        del argv[i:i + 2]
    if '--suffix' in argv:
        i = argv.index('--suffix')
        suffix = argv[i + 1]
        del argv[i:i + 2]
    args = [a for a in argv if not a.startswith('--')]
    do_tests = '--no-tests' not in sys.argv
    props = implemented_props()
    for P in args:
        outdir = '%s/%s/out' % (base_dir, P)
        if not os.path.isdir(outdir):
            print(P, 'no output dir')
            continue
        for k in sorted(os.listdir(outdir)):
            src = os.path.join(outdir, k)
            patch = os.path.join(src, 'patch.diff')
            demo = os.path.join(src, 'demo.py')
            if not (os.path.isfile(patch) and os.path.isfile(demo)):
                continue
            sid = '%s%s-%s' % (P, suffix, k)
            base = tempfile.mkdtemp(prefix='triage_')
            root = os.path.join(base, 'repo')
            make_copy(root)
            rec = {'id': sid, 'property': P}
            rc0, o0 = sh(['/venv/bin/python', demo, root], cwd=base,
                         timeout=600)
            rec['demo_clean_rc'] = rc0
            rca, oa = sh(['patch', '-p1', '-s', '-i', patch], cwd=root)
            rec['patch_applies'] = (rca == 0)
            rc1, o1 = sh(['/venv/bin/python', demo, root], cwd=base,
                         timeout=600)
            rec['demo_patched_rc'] = rc1
            rec['demo_patched_tail'] = o1.strip().splitlines()[-2:]
            if do_tests:
                rct, ot = sh(['/venv/bin/python', '-m', 'pytest', '-q', '-p',
                              'no:cacheprovider', '--timeout=900',
                              '--continue-on-collection-errors', '-n', '6'],
                             cwd=root, timeout=2400)
                m = re.search(r'(\d+) passed', ot)
                rec['tests_passed'] = int(m.group(1)) if m else None
                rec['tests_tail'] = ot.strip().splitlines()[-1:]
            checks = run_checks(root, props)
            rec['checks'] = checks
            flagged = [p for p, v in checks.items() if v['rc'] == 1]
            errs = [p for p, v in checks.items() if v['rc'] == 2]
            confirmed = (rc0 == 0 and rca == 0 and rc1 != 0 and rc1 != 124
                         and (not do_tests
                              or rec.get('tests_passed') == BASE_PASS))
            rec['confirmed'] = confirmed
            print('%-8s confirmed=%s demo %s->%s tests=%s flagged_by=%s '
                  'analysis_err=%s' %
                  (sid, confirmed, rc0, rc1, rec.get('tests_passed'),
                   flagged, errs))
            if confirmed:
                dst = os.path.join(VERIF, 'seeded', sid)
                os.makedirs(dst, exist_ok=True)
                shutil.copy(patch, dst)
                shutil.copy(demo, dst)
                meta = {}
                mp = os.path.join(src, 'meta.json')
                if os.path.isfile(mp):
                    try:
                        meta = json.load(open(mp))
                    except Exception:
                        meta = {'raw': open(mp).read()[:2000]}
                meta['breaks_property'] = P
                meta['confirmation'] = {
                    'ran': [
                        'demo.py on a clean copy of /repo working tree: '
                        'exit %d' % rc0,
                        'patch -p1 < patch.diff: applies',
                        'demo.py on the patched copy: exit %d' % rc1,
                        ('baseline pytest on the patched copy: %s passed '
                         '(baseline %d)' % (rec.get('tests_passed'),
                                            BASE_PASS)) if do_tests else
                        'tests not re-run',
                    ],
                    'demo_patched_tail': rec['demo_patched_tail'],
                }
                meta['detected_by'] = {p: v['lines'][:2] for p, v in
                                       checks.items() if v['rc'] == 1}
                meta['analysis_error_in'] = {p: v['lines'][:1] for p, v in
                                             checks.items() if v['rc'] == 2}
                json.dump(meta, open(os.path.join(dst, 'meta.json'), 'w'),
                          indent=1)
            shutil.rmtree(base, ignore_errors=True)


if __name__ == '__main__':
    main()
