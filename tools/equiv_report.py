#!/usr/bin/env python3
"""Soundness replay of the normalisation of DESIGN.md 10.6: applies each given
patch to a scratch copy of /repo and prints which functions were renamed,
inlined, proven equivalent to their reference version, and which still differ.
For a *breaking* change no changed function may be reported as equivalent.
usage: python3-vt tools/equiv_report.py <patch.diff>...   (default: seeded/*/patch.diff)"""
import sys, ast, os, subprocess, tempfile, shutil
sys.path.insert(0,'/verif')
from stbem_static import core
def report(repo):
    prog=core.Program(repo)
    out={}
    for rel,m in prog.modules.items():
        if m.normalised: out[rel]=m.normalised
        if m.renamed: out.setdefault(rel,{})['aligned']=sorted(m.renamed)
        # functions still differing from reference
        if m.ref_tree is not None:
            rf=dict(core._top_functions(m.ref_tree))
            diff=[q for q,n in core._top_functions(m.tree) if q in rf and not isinstance(n,ast.If) and ast.dump(rf[q])!=ast.dump(n)]
            new=[q for q,n in core._top_functions(m.tree) if q not in rf]
            gone=[q for q in rf if q not in dict(core._top_functions(m.tree))]
            out.setdefault(rel,{})['still_different']=diff
            if new: out[rel]['new']=new
            if gone: out[rel]['gone']=gone
    return out
import glob
for patch in (sys.argv[1:] or sorted(glob.glob('/verif/seeded/*/patch.diff'))):
    d=tempfile.mkdtemp(prefix='eqr_')
    subprocess.run('cd /repo && tar --exclude=.git --exclude=__pycache__ -cf - . | tar -xf - -C %s'%d,shell=True,check=True)
    r=subprocess.run('cd %s && patch -p1 -s < %s'%(d,patch),shell=True)
    try:
        print(patch.replace('/patch.diff',''), report(d) if r.returncode==0 else 'NOAPPLY')
    except Exception as e:
        import traceback; traceback.print_exc()
        print(patch, 'ERR', e)
    shutil.rmtree(d)
