#!/usr/bin/env python
"""Equivalence check for a behaviour-preserving refactoring of property C18.

FOCUS: line (temporaries), PiecewiseParametrization.eval (loops -> comprehensions), MeshParametrized.__init__ split into _assign_pieces_to_roots / _check_vertex_counts / _ensure_three_space_elements (next(), folded count asserts, De Morgan guard clause, two refinement rounds as one loop)

Usage:  /venv/bin/python equiv.py <repo_root_A> <repo_root_B>

The library (package `src`) is imported from each root in its own subprocess.
Each subprocess exercises
  * parametrization.line / line_project,
  * the shipped curves and a set of hand-made polygons / piecewise curves
    (PiecewiseParametrization.eval, pw_start, pw_gamma, closedness, failures),
  * MeshParametrized for many (curve, initial space grid, initial time grid)
    combinations followed by refinements; for every leaf element the piece
    carried in Element.gamma_space, its intervals, levels, neighbours, ...
and pickles a list of (label, value) records.  The driver compares the two
lists: bitwise first, and (only if that fails) up to 1e-13 relative.
Exit status 0 iff the outputs agree.
"""
import os
import pickle
import subprocess
import sys
import tempfile

import numpy as np

WORKER = r'''
import contextlib, io, os, pickle, sys
root, outfile = sys.argv[1], sys.argv[2]
root = os.path.realpath(root)
sys.path.insert(0, root)
os.chdir(root)
import numpy as np
import src.parametrization as P
import src.mesh as M
for mod in (P, M):
    assert os.path.realpath(mod.__file__).startswith(root + os.sep), mod.__file__

RECORDS = []
_stdout = io.StringIO()


def rec(label, thunk):
    """Stores thunk() or the type of the exception it raises."""
    try:
        with contextlib.redirect_stdout(_stdout):
            val = thunk()
    except Exception as e:  # noqa
        val = ('EXC', type(e).__name__)
    RECORDS.append((label, val))
    return val


def build(thunk):
    try:
        with contextlib.redirect_stdout(_stdout):
            return thunk(), None
    except Exception as e:  # noqa
        return None, ('EXC', type(e).__name__)


# ---------------------------------------------------------------- line ----
LINES = [
    ((0, 0), (1, 0), 0),
    ((0, 0), (0, -1), 0),
    ((1, -1), (1, 1), 2.0),
    ((0.3, 0.7), (-1.2, 2.5), 1.25),
    ((np.pi, 0), (np.pi, np.pi), np.pi),
    ((-1, 1), (-1, 0), 5),
    ((2.0, 2.0), (-3.0, 14.0), 0.1),
]
for n, (a, b, s) in enumerate(LINES):
    for dtype in (None, float):
        lab = 'line[%d,%s]' % (n, dtype)
        a_arr, b_arr = np.array(a, dtype=dtype), np.array(b, dtype=dtype)
        (res, err) = build(lambda: P.line(a_arr, b_arr, x_start=s))
        if err:
            RECORDS.append((lab, err))
            continue
        fun, norm = res
        rec(lab + ':norm', lambda: norm)
        rec(lab + ':type', lambda: (type(norm).__name__, callable(fun)))
        pts = [s, s + norm, s + norm / 3, np.linspace(s, s + norm, 17),
               np.array([s, s + norm]), np.arange(3) + s]
        for j, x in enumerate(pts):
            rec(lab + ':fun%d' % j, lambda: fun(x))
        # Positional x_start and default x_start.
        rec(lab + ':positional', lambda: P.line(a_arr, b_arr, s)[0](pts[3]))
        rec(lab + ':default', lambda: P.line(a_arr, b_arr)[0](pts[3] - s))
        rec(lab + ':default_norm', lambda: P.line(a_arr, b_arr)[1])
        # The closure must not alias its inputs.
        a_arr[0] += 1
        b_arr[1] -= 1
        rec(lab + ':noalias', lambda: fun(pts[3]))
        a_arr[0] -= 1
        b_arr[1] += 1
        proj = P.line_project(a_arr, b_arr, x_start=s)
        rec(lab + ':proj', lambda: [proj(fun(x)[:, 0]) for x in pts[:3]])

# -------------------------------------------------------------- curves ----
def arr(*v):
    return [np.array(x) for x in v]

CURVES = [
    ('UnitSquare', lambda: P.UnitSquare()),
    ('PiSquare', lambda: P.PiSquare()),
    ('LShape', lambda: P.LShape()),
    ('UnitInterval', lambda: P.UnitInterval()),
    ('Circle', lambda: P.Circle()),
    ('tri345', lambda: P.PiecewisePolygon(
        arr((0, 0), (4, 0), (4, 3), (0, 0)))),
    ('rect', lambda: P.PiecewisePolygon(
        arr((0., 0.), (2., 0.), (2., .5), (0., .5), (0., 0.)))),
    ('open_polyline', lambda: P.PiecewisePolygon(
        arr((0, 0), (1, 0), (1, 2)), closed=False)),
    ('open_polyline_kw', lambda: P.PiecewisePolygon(
        vertices=arr((0, 0), (0, 3), (-4, 3), (-4, 1)), closed=False)),
    ('diamond', lambda: P.PiecewisePolygon(
        arr((1, 0), (0, 1), (-1, 0), (0, -1), (1, 0)))),
    ('pentagon', lambda: P.PiecewisePolygon(
        arr((0., 0.), (1.5, 0.), (2.25, 1.), (.75, 2.), (-.5, 1.), (0., 0.)))),
    ('shifted_square', lambda: P.PiecewisePolygon(
        arr((.5, .25), (2.5, .25), (2.5, 2.25), (.5, 2.25), (.5, .25)))),
    ('closed_square_as_open', lambda: P.PiecewisePolygon(
        arr((0, 0), (1, 0), (1, 1), (0, 1), (0, 0)), closed=False)),
    ('tuple_vertices', lambda: P.PiecewisePolygon(
        tuple(arr((0, 0), (2, 0), (2, 2), (0, 2), (0, 0))))),
    ('bad_not_closed', lambda: P.PiecewisePolygon(
        arr((0, 0), (1, 0), (1, 1), (0, 1)))),
    ('bad_dim3', lambda: P.PiecewisePolygon(
        arr((0, 0, 0), (1, 0, 0), (0, 0, 0)))),
    ('bad_single_vertex', lambda: P.PiecewisePolygon(arr((0, 0)))),
    ('pw_circle', lambda: P.PiecewiseParametrization([0, 2 * np.pi],
                                                     [P.circle])),
    ('pw_circle_open', lambda: P.PiecewiseParametrization(
        [0, np.pi], [P.circle], closed=False)),
    ('pw_circle_bad_closed', lambda: P.PiecewiseParametrization(
        [0, np.pi], [P.circle], closed=True)),
    ('pw_two_lines', lambda: P.PiecewiseParametrization(
        pw_start=[0, 1, 3],
        pw_gamma=[P.line(np.array([0, 0]), np.array([1, 0]))[0],
                  P.line(np.array([1, 0]), np.array([1, 2]), x_start=1)[0]],
        closed=False)),
    ('pw_bad_start', lambda: P.PiecewiseParametrization(
        [1, 2], [P.line(np.array([0, 0]), np.array([1, 0]), 1)[0]],
        closed=False)),
    ('pw_bad_speed', lambda: P.PiecewiseParametrization(
        [0, 1], [lambda x: 2 * P.line(np.array([0, 0]), np.array([1, 0]))[0]
                 (x)], closed=False)),
]

BUILT = {}
rng = np.random.RandomState(18)
for name, ctor in CURVES:
    gamma, err = build(ctor)
    lab = 'curve[%s]' % name
    if err:
        RECORDS.append((lab, err))
        continue
    BUILT[name] = gamma
    L = gamma.gamma_length
    rec(lab + ':type', lambda: (type(gamma).__name__,
                                [c.__name__ for c in type(gamma).__mro__]))
    if type(gamma).__name__ not in ('PiecewisePolygon',
                                    'PiecewiseParametrization',
                                    'UnitInterval'):
        rec(lab + ':repr', lambda: (repr(gamma), str(gamma)))
    rec(lab + ':pw_start', lambda: list(gamma.pw_start))
    rec(lab + ':pw_start_types',
        lambda: [type(x).__name__ for x in gamma.pw_start])
    rec(lab + ':meta', lambda: (gamma.gamma_length, gamma.closed,
                                len(gamma.pw_gamma),
                                type(gamma.pw_start).__name__,
                                type(gamma.pw_gamma).__name__))
    breaks = list(gamma.pw_start)
    mids = [(breaks[i] + breaks[i + 1]) / 2 for i in range(len(breaks) - 1)]
    scalars = [0, L] + breaks + mids + [L / 7, np.float64(L) * 0.999]
    for j, x in enumerate(scalars):
        rec(lab + ':eval_scalar%d' % j, lambda: gamma.eval(x))
    arrays = [
        np.linspace(0, L, 101),
        np.array(breaks),
        np.array(sorted(breaks + mids)),
        rng.uniform(0, L, size=200),
        np.array(breaks)[::-1].copy(),
        np.nextafter(np.array(breaks[1:]), 0),
        np.nextafter(np.array(breaks[:-1]), 10 * L),
        np.arange(int(L) + 1),
    ]
    for j, x in enumerate(arrays):
        rec(lab + ':eval_array%d' % j, lambda: gamma.eval(x))
    rec(lab + ':eval_2d', lambda: gamma.eval(np.linspace(0, L, 12).reshape(
        3, 4)))
    for j, x in enumerate([-0.1, L + 0.1, np.array([0, L * 1.01]),
                           np.array([-1e-9, L / 2])]):
        rec(lab + ':eval_out%d' % j, lambda: gamma.eval(x))
    # Pieces, and agreement of the whole curve with the containing piece.
    for i, piece in enumerate(gamma.pw_gamma):
        x = np.linspace(breaks[i], breaks[i + 1], 9)
        rec(lab + ':piece%d' % i, lambda: piece(x))
        rec(lab + ':piece%d_scalar' % i, lambda: piece(mids[i]))
        rec(lab + ':piece%d_outside' % i, lambda: piece(x + L))
        rec(lab + ':piece%d_agrees' % i,
            lambda: bool(np.all(piece(x) == gamma.eval(x))))
    rec(lab + ':closed_gap',
        lambda: gamma.eval(0) - gamma.eval(gamma.gamma_length))
    rec(lab + ':speed', lambda: np.linalg.norm(
        P.central_derivative(gamma.eval, np.linspace(1e-4, L - 1e-4)),
        axis=0))

# -------------------------------------------------------------- meshes ----
def piece_index(gamma, fn):
    if fn is None:
        return None
    for i, g in enumerate(gamma.pw_gamma):
        if g is fn:
            return i
    return -1


def all_elements(mesh):
    out, stack = [], list(reversed(mesh.roots))
    while stack:
        e = stack.pop()
        out.append(e)
        stack.extend(reversed(e.children))
    return out


def dump(mesh, gamma):
    leaves = list(mesh.leaf_elements)
    res = {
        'N_elements': mesh.N_elements,
        'n_vertices': len(mesh.vertices),
        'n_roots': len(mesh.roots),
        'glue_space': mesh.glue_space,
        'vertices': [(v.idx, v.t, v.x) for v in mesh.vertices],
        'tree_pieces': [(e.glob_idx, e.levels,
                         piece_index(gamma, e.gamma_space) if gamma else
                         e.gamma_space) for e in all_elements(mesh)],
        'bitwise_only:md5': mesh.md5(),
        'gmsh': mesh.gmsh(),
    }
    if gamma is not None:
        res['same_gamma'] = mesh.gamma_space is gamma
        res['gmsh_gamma'] = mesh.gmsh(use_gamma=True)
    lv = []
    for e in leaves:
        item = [e.glob_idx, e.levels, e.time_interval, e.space_interval,
                e.h_t, e.h_x, [v.idx for v in e.vertices],
                (e.center.t, e.center.x), repr(e)]
        item.append([(ed.on_boundary, ed.glued, ed.space_edge, ed.time_edge,
                      sorted(n.glob_idx for n in ed.neighbour_elements()))
                     for ed in e.edges])
        if gamma is not None:
            item.append(piece_index(gamma, e.gamma_space))
            a, b = e.space_interval
            item.append(e.gamma_space(np.array([a, e.center.x, b])))
            item.append(e.gamma_space(e.center.x))
            # which pieces contain the parameter interval of the element
            item.append([i for i in range(len(gamma.pw_gamma))
                         if gamma.pw_start[i] <= a
                         and b <= gamma.pw_start[i + 1]])
        lv.append(item)
    res['leaves'] = lv
    # number of elements around the curve per time slab (finest slabs)
    ts = sorted(set(t for e in leaves for t in e.time_interval))
    res['per_slab'] = [
        sum(1 for e in leaves
            if e.time_interval[0] <= t0 and t1 <= e.time_interval[1])
        for t0, t1 in zip(ts[:-1], ts[1:])
    ]
    return res


TIME_MESHES = [None, [0, 1], [0, 0.5, 1], [0, 0.1, 0.4, 2.0], (0, 3)]


def space_meshes(gamma):
    L = gamma.gamma_length
    br = list(gamma.pw_start)
    with_mids = sorted(br + [(br[i] + br[i + 1]) / 2
                             for i in range(len(br) - 1)])
    return [
        ('none', None),
        ('one', [0, L]),
        ('two', [0, L / 2, L]),
        ('three', [0, L / 4, L / 2, L]),
        ('mids', with_mids),
        ('offbreak', [0, L / 3, 0.7 * L, L]),
        ('tuple', tuple(br)),
        ('bad_first', [0.5 * L, L]),
        ('bad_last', [0, L / 2]),
    ]


for name, gamma in BUILT.items():
    for sname, smesh in space_meshes(gamma):
        for tn, tmesh in enumerate(TIME_MESHES):
            if sname in ('tuple', 'bad_first', 'bad_last') and tn > 1:
                continue
            lab = 'mesh[%s,%s,%d]' % (name, sname, tn)
            kwargs = {}
            if smesh is not None:
                kwargs['initial_space_mesh'] = smesh
            if tmesh is not None:
                kwargs['initial_time_mesh'] = tmesh
            if tn == 2 and smesh is not None:
                ctor = lambda: M.MeshParametrized(gamma, smesh, tmesh)
            else:
                ctor = lambda: M.MeshParametrized(gamma_space=gamma, **kwargs)
            mesh, err = build(ctor)
            if err:
                RECORDS.append((lab, err))
                continue
            rec(lab + ':init', lambda: dump(mesh, gamma))
            # A deterministic sequence of refinements.
            def pick(k):
                leaves = list(mesh.leaf_elements)
                return leaves[(7 * k + 3) % len(leaves)]
            rec(lab + ':ops1', lambda: [
                [c.glob_idx for c in mesh.refine_space(pick(0))],
                [c.glob_idx for c in mesh.refine_time(pick(1))],
                [c.glob_idx for c in mesh.refine(pick(2))],
            ])
            rec(lab + ':after_ops1', lambda: dump(mesh, gamma))
            if tn in (0, 2):
                rec(lab + ':uniform', lambda: mesh.uniform_refine())
                rec(lab + ':after_uniform', lambda: dump(mesh, gamma))
            if tn == 1 and sname in ('none', 'one', 'mids'):
                n = len(mesh.leaf_elements)
                eta = (np.arange(n) * 37 % 11 + 1.0)
                rec(lab + ':dorfler',
                    lambda: mesh.dorfler_refine_isotropic(eta, 0.5))
                n = len(mesh.leaf_elements)
                eta2 = (np.arange(2 * n) * 29 % 13 + 1.0).reshape(n, 2)
                rec(lab + ':dorfler_aniso',
                    lambda: mesh.dorfler_refine_anisotropic(eta2, 0.6))
                rec(lab + ':after_dorfler', lambda: dump(mesh, gamma))
            if tn == 3 and sname in ('none', 'two'):
                rec(lab + ':grading', lambda: mesh.refine_grading(sigma=2,
                                                                  K=4))
                rec(lab + ':after_grading', lambda: dump(mesh, gamma))
            if tn == 4 and sname == 'none':
                rec(lab + ':uniform_space',
                    lambda: mesh.uniform_refine_space())
                rec(lab + ':dist', lambda: [
                    e.dist(f) for e in list(mesh.leaf_elements)[:5]
                    for f in list(mesh.leaf_elements)[-5:]])

rec('mesh[not_a_curve]', lambda: M.MeshParametrized(gamma_space=P.circle))
rec('mesh[none_curve]', lambda: M.MeshParametrized(None))

# Plain meshes: no curve, so no piece anywhere in the tree.
for n, kw in enumerate([
        {}, {'glue_space': True, 'initial_space_mesh': [0, 1, 2, 3]},
        {'initial_space_mesh': [0, .5, 1], 'initial_time_mesh': [0, 1, 3]},
        {'glue_space': True, 'initial_time_mesh': [0, 1, 2]}]):
    mesh, err = build(lambda: M.Mesh(**kw))
    lab = 'plain[%d]' % n
    if err:
        RECORDS.append((lab, err))
        continue
    rec(lab + ':init', lambda: dump(mesh, None))
    rec(lab + ':uniform', lambda: mesh.uniform_refine())
    rec(lab + ':refine', lambda: [c.glob_idx for c in mesh.refine(
        list(mesh.leaf_elements)[1])])
    rec(lab + ':after', lambda: dump(mesh, None))


def lone_element(levels, parent=None):
    vs = [M.Vertex(0, 0, 0), M.Vertex(0, 1, 1), M.Vertex(1, 1, 2),
          M.Vertex(1, 0, 3)]
    edges = [M.Edge((vs[i], vs[(i + 1) % 4])) for i in range(4)]
    e = M.Element(edges, levels, parent)
    return (e.gamma_space, e.levels, e.time_interval, e.space_interval)


rec('element[root]', lambda: lone_element((0, 0)))
rec('element[bad_levels]', lambda: lone_element((1, 0)))
rec('element[parent]', lambda: lone_element(
    (1, 0), parent=list(M.MeshParametrized(P.UnitSquare()).leaf_elements)[0])
    [1:])

RECORDS.append(('stdout', _stdout.getvalue()))
with open(outfile, 'wb') as f:
    pickle.dump(RECORDS, f)
'''

RTOL = 1e-13


def _num_close(a, b):
    a, b = np.asarray(a), np.asarray(b)
    if a.shape != b.shape:
        return False
    if a.dtype.kind in 'fc' or b.dtype.kind in 'fc':
        scale = max(1.0, float(np.max(np.abs(a), initial=0.0)))
        return bool(np.allclose(a, b, rtol=RTOL, atol=RTOL * scale,
                                equal_nan=True))
    return bool(np.array_equal(a, b))


def _str_close(a, b):
    if a == b:
        return True
    ta, tb = a.split(), b.split()
    if len(ta) != len(tb):
        return False
    for x, y in zip(ta, tb):
        if x == y:
            continue
        try:
            fx, fy = float(x.strip('(),')), float(y.strip('(),'))
        except ValueError:
            return False
        if not _num_close(fx, fy):
            return False
    return True


def same(a, b, exact):
    """Recursive comparison; exact=True means bitwise."""
    if isinstance(a, np.ndarray) or isinstance(b, np.ndarray):
        if not (isinstance(a, np.ndarray) and isinstance(b, np.ndarray)):
            return False
        if a.dtype != b.dtype or a.shape != b.shape:
            return False
        if exact:
            return a.tobytes() == b.tobytes()
        return _num_close(a, b)
    if type(a) != type(b):
        return False
    if isinstance(a, dict):
        if list(a.keys()) != list(b.keys()):
            return False
        return all(
            same(a[k], b[k], exact) for k in a
            if exact or not str(k).startswith('bitwise_only:'))
    if isinstance(a, (list, tuple)):
        return len(a) == len(b) and all(
            same(x, y, exact) for x, y in zip(a, b))
    if isinstance(a, (float, np.floating)):
        if exact:
            return float(a).hex() == float(b).hex()
        return _num_close(a, b)
    if isinstance(a, str):
        return a == b if exact else _str_close(a, b)
    return a == b


def run(root, outfile):
    env = dict(os.environ)
    env.pop('PYTHONPATH', None)
    env['PYTHONDONTWRITEBYTECODE'] = '1'
    proc = subprocess.run([sys.executable, '-c', WORKER, root, outfile],
                          env=env,
                          stdout=subprocess.PIPE,
                          stderr=subprocess.STDOUT,
                          universal_newlines=True)
    if proc.returncode != 0:
        print('worker failed for %s:\n%s' % (root, proc.stdout))
        sys.exit(2)
    with open(outfile, 'rb') as f:
        return pickle.load(f)


def main():
    if len(sys.argv) != 3:
        print(__doc__)
        sys.exit(2)
    root_a, root_b = (os.path.abspath(p) for p in sys.argv[1:3])
    with tempfile.TemporaryDirectory() as tmp:
        rec_a = run(root_a, os.path.join(tmp, 'a.pkl'))
        rec_b = run(root_b, os.path.join(tmp, 'b.pkl'))

    labels_a = [l for l, _ in rec_a]
    labels_b = [l for l, _ in rec_b]
    if labels_a != labels_b:
        print('DIFFERENT: the two runs produced different record labels')
        print(sorted(set(labels_a) ^ set(labels_b))[:20])
        sys.exit(1)

    n_exc = sum(1 for _, v in rec_a
                if isinstance(v, tuple) and len(v) == 2 and v[0] == 'EXC')
    # Sanity: the scenario must exercise real results, not only failures.
    assert len(rec_a) > 1000 and n_exc < len(rec_a) / 4, (len(rec_a), n_exc)

    not_bitwise, different = [], []
    for (label, va), (_, vb) in zip(rec_a, rec_b):
        if same(va, vb, exact=True):
            continue
        not_bitwise.append(label)
        if not same(va, vb, exact=False):
            different.append(label)

    print('%d records compared (%d of them expected exceptions)' %
          (len(rec_a), n_exc))
    if different:
        print('DIFFERENT in %d records, e.g.:' % len(different))
        for label in different[:25]:
            print('   ', label)
        sys.exit(1)
    if not_bitwise:
        print('equal up to %g relative; %d records not bitwise, e.g. %s' %
              (RTOL, len(not_bitwise), not_bitwise[:5]))
    else:
        print('all records bitwise identical')
    print('EQUIVALENT')
    sys.exit(0)


if __name__ == '__main__':
    main()
