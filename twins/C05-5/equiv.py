"""Equivalence check for refactorings of src/quadrature_rules.py and
src/quadrature.py (property C05: tabulated quadrature rules).

Usage:  python equiv.py <repo_root_A> <repo_root_B>

Each root is imported in its own subprocess.  The worker calls every rule
function on a grid of keys that covers all tabulated keys and many
untabulated ones (ints, numpy ints, floats, bools, junk), records the
result bit-for-bit (container types, element types, float.hex of every
node and weight) or the exception type, builds every scheme constructor
over a range of degrees, records the raw bytes of points/weights, mirrored
schemes, tensor/Duffy schemes built on top, and a set of integrals.
Exit status 0 iff the two dumps are identical.
"""
import json
import subprocess
import sys

FOCUS = "sqrt/sqrtinv if-elif chains turned into module-level dict tables with a shared lookup helper"


def _enc_scalar(x):
    import numpy as np
    if isinstance(x, (float, np.floating)):
        return [type(x).__name__, float(x).hex()]
    return [type(x).__name__, repr(x)]


def _enc_rule(res):
    if res is None:
        return ["NoneType"]
    out = [type(res).__name__, len(res)]
    for seq in res:
        if isinstance(seq, (tuple, list)):
            out.append([type(seq).__name__, [_enc_scalar(x) for x in seq]])
        else:
            out.append(_enc_scalar(seq))
    return out


def _call(f, *args, **kwargs):
    try:
        return ["ok", _enc_rule(f(*args, **kwargs))]
    except BaseException as e:  # noqa
        return ["exc", type(e).__name__, repr(e.args)]


def _enc_arr(a):
    import numpy as np
    a = np.asarray(a)
    return [str(a.dtype), list(a.shape), a.tobytes().hex()]


def _enc_scheme(s):
    return [type(s).__name__, _enc_arr(s.points), _enc_arr(s.weights)]


def worker(root):
    import os
    root = os.path.abspath(root)
    sys.path.insert(0, root)
    import numpy as np
    import src.quadrature_rules as R
    import src.quadrature as Q
    assert os.path.realpath(R.__file__).startswith(os.path.realpath(root))
    assert os.path.realpath(Q.__file__).startswith(os.path.realpath(root))

    dump = {}
    for name in ("LOG_QUAD_RULES", "LOG_LOG_QUAD_RULES", "SQRT_QUAD_RULES",
                 "SQRTINV_QUAD_RULES"):
        dump[name] = repr(getattr(R, name))

    # ---- two-key rule tables -------------------------------------------
    two = {
        "log_quadrature_rule": ("N_poly", "N_poly_log"),
        "log_log_quadrature_rule": ("N_poly", "N_log"),
        "sqrt_quadrature_rule": ("N_poly", "N_poly_sqrt"),
        "sqrtinv_quadrature_rule": ("N_poly", "N_poly_sqrt"),
    }
    for name, (p0, p1) in two.items():
        f = getattr(R, name)
        d = {}
        for a in range(-3, 22):
            for b in range(-3, 19):
                d["%d,%d" % (a, b)] = _call(f, a, b)
        for a, b in [(0, 0), (1, 1), (3, 3), (9, 9), (-1, 6), (-1, 7),
                     (0, 6), (11, 0), (8, 16), (11, 11), (3, 1), (1, 2)]:
            d["np %d,%d" % (a, b)] = _call(f, np.int64(a), np.int32(b))
            d["fl %d,%d" % (a, b)] = _call(f, float(a), float(b))
            d["kw %d,%d" % (a, b)] = _call(f, **{p0: a, p1: b})
            d["half %d,%d" % (a, b)] = _call(f, a + 0.5, b)
        d["bool"] = _call(f, False, False)
        d["bool1"] = _call(f, True, True)
        d["none"] = _call(f, None, None)
        d["str"] = _call(f, "1", "1")
        d["nan"] = _call(f, float("nan"), 0)
        d["one arg"] = _call(f, 1)
        d["unhashable"] = _call(f, [1], 1)
        d["unhashable2"] = _call(f, 1, {})
        # stability of the returned value across repeated calls
        d["repeat"] = _call(f, 3, 3)
        d["repeat same"] = (f(3, 3) == f(3, 3))
        dump[name] = d

    # ---- one-key rule tables -------------------------------------------
    for name in ("gauss_sqrtinv_quadrature_rule", "gauss_x_quadrature_rule",
                 "gauss_log_quadrature_rule"):
        f = getattr(R, name)
        d = {}
        for n in range(-3, 40):
            d[str(n)] = _call(f, n)
            d["np%d" % n] = _call(f, np.int64(n))
            d["fl%d" % n] = _call(f, float(n))
            d["kw%d" % n] = _call(f, N=n)
        for junk in (None, "3", 2.5, float("nan"), True, False, (1, ), 10**9):
            d["junk %r" % (junk, )] = _call(f, junk)
        d["no arg"] = _call(f)
        dump[name] = d

    # ---- scheme constructors -------------------------------------------
    funs = [
        lambda x: np.ones_like(x),
        lambda x: x**3 - 2 * x + 0.25,
        lambda x: x**7,
        lambda x: np.log(x) * (1 + x + x**2),
        lambda x: np.log(1 - x) * x,
        lambda x: np.sqrt(x) * (1 - x),
        lambda x: (1 + x**2) / np.sqrt(x),
        lambda x: np.exp(-x) * np.cos(3 * x),
    ]

    def scheme_record(mk, *args, **kwargs):
        try:
            s = mk(*args, **kwargs)
        except BaseException as e:  # noqa
            return ["exc", type(e).__name__, repr(e.args)]
        rec = ["ok", _enc_scheme(s), _enc_scheme(s.mirror())]
        rec.append(s.mirror() is s.mirror())
        ints = []
        for g in funs:
            for (a, b) in [(0., 1.), (0.2, 0.7), (0.5, 0.5), (0., 3.)]:
                with np.errstate(all="ignore"):
                    v = s.integrate(g, a, b)
                ints.append(_enc_scalar(v))
        rec.append(ints)
        return rec

    one = ("gauss_quadrature_scheme", "gauss_sqrtinv_quadrature_scheme",
           "gauss_x_quadrature_scheme", "gauss_log_quadrature_scheme")
    for name in one:
        mk = getattr(Q, name)
        d = {}
        for n in range(-2, 66):
            d[str(n)] = scheme_record(mk, n)
        for n in (1, 3, 7, 11):
            d["kw%d" % n] = scheme_record(mk, N_poly=n)
            d["np%d" % n] = scheme_record(mk, np.int64(n))
        dump[name] = d
    for name in ("log_quadrature_scheme", "log_log_quadrature_scheme",
                 "sqrt_quadrature_scheme", "sqrtinv_quadrature_scheme"):
        mk = getattr(Q, name)
        d = {}
        for a in range(-2, 21):
            for b in range(-2, 18):
                d["%d,%d" % (a, b)] = scheme_record(mk, a, b)
        for a, b in [(0, 0), (1, 1), (3, 3), (3, 1), (1, 2), (-1, 6)]:
            d["kw %d,%d" % (a, b)] = scheme_record(mk,
                                                    N_poly=a,
                                                    N_poly_log=b)
        d["one arg"] = scheme_record(mk, 3)
        dump[name] = d

    # ---- schemes built on top of the tabulated rules -------------------
    d = {}
    for key in [(3, 3), (7, 7), (12, 12)]:
        lg = Q.log_quadrature_scheme(*key)
        gs = Q.gauss_quadrature_scheme(2 * key[0] + 1)
        p2 = Q.ProductScheme2D(lg, gs)
        d["prod2 %r" % (key, )] = _enc_scheme(p2)
        d["prod2mx %r" % (key, )] = _enc_scheme(p2.mirror_x())
        d["prod2my %r" % (key, )] = _enc_scheme(p2.mirror_y())
        for sym in (True, False):
            du = Q.DuffyScheme2D(p2, symmetric=sym)
            d["duffy %r %r" % (key, sym)] = _enc_scheme(du)
            with np.errstate(all="ignore"):
                v = du.integrate(
                    lambda x: np.log((x[0] - x[1])**2 + 1e-300) * x[0], 0., 1.,
                    0., 1.)
            d["duffy int %r %r" % (key, sym)] = _enc_scalar(v)
    for n in (1, 2, 5):
        gx = Q.gauss_x_quadrature_scheme(n)
        p3 = Q.ProductScheme3D(gx)
        d["prod3 %d" % n] = _enc_scheme(p3)
        d["touch3 %d" % n] = _enc_scheme(Q.DuffySchemeTouch3D(p3))
        d["ident3 %d" % n] = _enc_scheme(Q.DuffySchemeIdentical3D(p3, True))
    dump["derived"] = d

    json.dump(dump, sys.stdout, sort_keys=True)


def _first_diff(a, b, path=""):
    if type(a) != type(b):
        return path, a, b
    if isinstance(a, dict):
        for k in sorted(set(a) | set(b)):
            if k not in a or k not in b:
                return path + "/" + k, a.get(k), b.get(k)
            r = _first_diff(a[k], b[k], path + "/" + k)
            if r: return r
        return None
    if isinstance(a, list):
        if len(a) != len(b):
            return path + "[len]", len(a), len(b)
        for i, (x, y) in enumerate(zip(a, b)):
            r = _first_diff(x, y, "%s[%d]" % (path, i))
            if r: return r
        return None
    return None if a == b else (path, a, b)


def main():
    if len(sys.argv) == 3 and sys.argv[1] == "--worker":
        worker(sys.argv[2])
        return 0
    if len(sys.argv) != 3:
        print(__doc__)
        return 2
    dumps = []
    import os
    for root in sys.argv[1:3]:
        p = subprocess.run(
            [sys.executable, os.path.abspath(__file__), "--worker",
             os.path.abspath(root)],
            stdout=subprocess.PIPE,
            stderr=subprocess.PIPE,
            cwd="/",
            timeout=110)
        if p.returncode != 0:
            print("worker failed for", root)
            print(p.stderr.decode()[-4000:])
            return 1
        dumps.append(json.loads(p.stdout.decode()))
    diff = _first_diff(dumps[0], dumps[1])
    if diff:
        print("MISMATCH at %s:\n  A=%r\n  B=%r" %
              (diff[0], str(diff[1])[:300], str(diff[2])[:300]))
        return 1
    n_ok = sum(1 for k, v in dumps[0].items() if isinstance(v, dict)
               for r in v.values() if isinstance(r, list) and r[:1] == ["ok"])
    print("equivalent (focus: %s); %d successful calls compared bitwise" %
          (FOCUS, n_ok))
    return 0


if __name__ == "__main__":
    sys.exit(main())
