#!/usr/bin/env python
"""Equivalence check for refactorings of Mesh.dorfler_refine_{isotropic,anisotropic}.

Usage: python equiv.py <repo_root_A> <repo_root_B>

Runs the same battery of Doerfler-marking scenarios against the library found
in each root (one subprocess per root) and compares, bitwise, the resulting
meshes (leaf elements in order, their vertex coordinates, levels, global
indices, vertex list, element count) as well as everything printed by the
library.  Exits 0 iff the two roots agree on every scenario.
"""
import json
import os
import subprocess
import sys

DRIVER = r'''
import contextlib, io, json, sys
sys.path.insert(0, sys.argv[1])
import numpy as np
from src.mesh import Mesh


def snapshot(mesh):
    leaves = []
    for e in mesh.leaf_elements:
        leaves.append([
            e.glob_idx, list(e.levels),
            [[float(v.t).hex(), float(v.x).hex(), v.idx] for v in e.vertices],
            e.parent.glob_idx if e.parent else -1,
        ])
    verts = [[float(v.t).hex(), float(v.x).hex(), v.idx] for v in mesh.vertices]
    return {"leaves": leaves, "verts": verts, "N": mesh.N_elements}


def make_mesh(kind):
    if kind == "unit":
        m = Mesh()
    elif kind == "glued":
        m = Mesh(glue_space=True)
    elif kind == "glued4":
        m = Mesh(glue_space=True, initial_space_mesh=[0., 1., 2., 3., 4.])
    elif kind == "lshape":
        m = Mesh(glue_space=True,
                 initial_space_mesh=[0., 1., 2., 3., 4., 5., 6., 7., 8.],
                 initial_time_mesh=[0., 0.5, 1.])
    elif kind == "open3x2":
        m = Mesh(glue_space=False, initial_space_mesh=[0., 0.25, 1., 2.],
                 initial_time_mesh=[0., 1., 3.])
    elif kind == "uniform2":
        m = Mesh(glue_space=True)
        m.uniform_refine()
        m.uniform_refine()
    elif kind == "aniso_pre":
        m = Mesh(glue_space=False, initial_space_mesh=[0., 1., 2.])
        m.uniform_refine_space()
        m.uniform_refine_space()
        m.refine_time(list(m.leaf_elements)[0])
    elif kind == "graded":
        m = Mesh(glue_space=True, initial_space_mesh=[0., 1., 2., 3.])
        for _ in range(4):
            m.refine(list(m.leaf_elements)[0])
    else:
        raise ValueError(kind)
    return m


def indicators(mode, rng, N, aniso):
    shape = (N, 2) if aniso else (N,)
    if mode == "rand":
        eta = rng.random(shape)
    elif mode == "lognormal":
        eta = np.exp(4 * rng.standard_normal(shape))
    elif mode == "ties":
        eta = rng.integers(0, 3, size=shape).astype(float)
        if eta.sum() == 0:
            eta.flat[0] = 1.0
    elif mode == "equal":
        eta = np.ones(shape)
    elif mode == "zeros":
        eta = np.zeros(shape)
    elif mode == "onehot":
        eta = np.zeros(shape)
        eta.flat[int(rng.integers(0, eta.size))] = 2.5
    elif mode == "tiny":
        eta = rng.random(shape) * 1e-300
    elif mode == "peak":
        eta = rng.random(shape) * 1e-3
        eta.flat[int(rng.integers(0, eta.size))] = 10.0
        eta.flat[int(rng.integers(0, eta.size))] = 10.0
    else:
        raise ValueError(mode)
    return eta


results = []
kinds = ["unit", "glued", "glued4", "lshape", "open3x2", "uniform2",
         "aniso_pre", "graded"]
modes = ["rand", "lognormal", "ties", "equal", "zeros", "onehot", "tiny",
         "peak"]
thetas = [0.05, 0.3, 0.5, 0.6, 0.9, 0.99]
seed = 0
for aniso in (False, True):
    for kind in kinds:
        for mode in modes:
            for theta in thetas:
                seed += 1
                rng = np.random.default_rng(seed)
                mesh = make_mesh(kind)
                out = io.StringIO()
                snaps = []
                err = None
                with contextlib.redirect_stdout(out):
                    try:
                        for it in range(3):
                            N = len(mesh.leaf_elements)
                            eta = indicators(mode, rng, N, aniso)
                            if aniso:
                                mesh.dorfler_refine_anisotropic(eta, theta)
                            else:
                                mesh.dorfler_refine_isotropic(eta, theta)
                            snaps.append(snapshot(mesh))
                    except Exception as exc:  # compare failures too
                        err = "{}: {}".format(type(exc).__name__, exc)
                results.append({"case": [aniso, kind, mode, theta],
                                "snaps": snaps, "stdout": out.getvalue(),
                                "err": err})

# The isotropic variant is also called with plain Python lists / summed rows
# (as example.py does).
for seed in range(5):
    rng = np.random.default_rng(1000 + seed)
    mesh = make_mesh("glued4")
    out = io.StringIO()
    snaps = []
    with contextlib.redirect_stdout(out):
        for it in range(4):
            N = len(mesh.leaf_elements)
            eta = rng.random((N, 2))
            if it % 2 == 0:
                mesh.dorfler_refine_isotropic(np.sum(eta, axis=1), 0.7)
            else:
                mesh.dorfler_refine_isotropic(list(eta[:, 0]), 0.7)
            snaps.append(snapshot(mesh))
    results.append({"case": ["list", seed], "snaps": snaps,
                    "stdout": out.getvalue(), "err": None})

# Mirrors src/mesh_test.py usage.
for aniso in (False, True):
    rng = np.random.default_rng(5)
    mesh = Mesh(glue_space=True)
    out = io.StringIO()
    snaps = []
    with contextlib.redirect_stdout(out):
        for _ in range(7):
            N = len(mesh.leaf_elements)
            if aniso:
                mesh.dorfler_refine_anisotropic(rng.random((N, 2)), 0.6)
            else:
                mesh.dorfler_refine_isotropic(rng.random(N), 0.6)
            snaps.append(snapshot(mesh))
    results.append({"case": ["test", aniso], "snaps": snaps,
                    "stdout": out.getvalue(), "err": None})

json.dump(results, sys.stdout)
'''


def run(root):
    proc = subprocess.run([sys.executable, '-c', DRIVER, root],
                          stdout=subprocess.PIPE,
                          stderr=subprocess.PIPE,
                          cwd='/',
                          timeout=600)
    if proc.returncode != 0:
        sys.stderr.write(proc.stderr.decode())
        raise SystemExit('driver failed for {}'.format(root))
    return json.loads(proc.stdout.decode())


def main():
    if len(sys.argv) != 3:
        raise SystemExit(__doc__)
    res_a = run(os.path.abspath(sys.argv[1]))
    res_b = run(os.path.abspath(sys.argv[2]))
    if len(res_a) != len(res_b):
        print('different number of scenarios')
        return 1
    bad = 0
    n_err = 0
    for a, b in zip(res_a, res_b):
        if a['err']:
            n_err += 1
        if a != b:
            bad += 1
            what = [k for k in a if a[k] != b[k]]
            print('MISMATCH in case {}: fields {}'.format(a['case'], what))
    print('{} scenarios compared, {} mismatches ({} scenarios raise identically '
          'in both trees)'.format(len(res_a), bad, n_err))
    return 1 if bad else 0


if __name__ == '__main__':
    sys.exit(main())
