"""Equivalence check for a refactoring of the code behind property C03.

usage: equiv.py <repo_root_A> <repo_root_B>

Imports the library from both roots in two separate subprocesses, runs the
scenarios named in WHAT (pointwise evaluation of V 1_trial, the full
assemble / solve / residual pipeline for the shipped model problems, and the
problem data) and compares all recorded outputs: bitwise where possible,
otherwise to 1e-13 relative.  Exits 0 iff everything agrees.
"""
import contextlib
import io
import os
import pickle
import random
import sys
import time


def build_mesh(np, MeshParametrized, gamma_cls, seed, n_refine, uniform=0):
    mesh = MeshParametrized(gamma_cls())
    for _ in range(uniform):
        mesh.uniform_refine()
    rnd = random.Random(seed)
    for _ in range(n_refine):
        elem = rnd.choice(list(mesh.leaf_elements))
        mesh.refine_axis(elem, rnd.random() < 0.5)
    return mesh


def main(root, out_path, what):
    root = os.path.abspath(root)
    sys.path.insert(0, root)
    os.chdir(root)
    import numpy as np
    from problems import problem_helper
    from src.error_estimator import ErrorEstimator
    from src.initial_mesh import (LShapeBoundaryRefined,
                                  PiSquareBoundaryRefined,
                                  UnitSquareBoundaryRefined)
    from src.initial_potential import InitialOperator
    from src.mesh import MeshParametrized
    from src.parametrization import Circle, LShape, PiSquare, UnitSquare
    from src.quadrature import ProductScheme2D, gauss_quadrature_scheme
    from src.single_layer import SingleLayerOperator
    import src.single_layer as sl_mod
    assert os.path.abspath(sl_mod.__file__).startswith(root), sl_mod.__file__

    res = {}
    domains = {
        'UnitSquare': (UnitSquare, UnitSquareBoundaryRefined),
        'PiSquare': (PiSquare, PiSquareBoundaryRefined),
        'LShape': (LShape, LShapeBoundaryRefined),
        'Circle': (Circle, None),
    }

    def rec(key, val):
        res[key] = np.asarray(val, dtype=float).tobytes(), np.asarray(
            val, dtype=float).shape

    # ------------------------------------------------------------------
    # A. Pointwise evaluation of V 1_trial: evaluate / evaluate_exact.
    if 'evaluate' in what:
        gauss = gauss_quadrature_scheme(3)
        for dom, seed, n_ref in [('UnitSquare', 1, 10), ('LShape', 2, 8),
                                 ('Circle', 3, 8), ('PiSquare', 4, 6)]:
            mesh = build_mesh(np, MeshParametrized, domains[dom][0], seed,
                              n_ref)
            SL = SingleLayerOperator(mesh)
            elems = list(mesh.leaf_elements)
            polygon = dom != 'Circle'
            ts = sorted(
                set([0.0, 1.0, 0.3, 0.77, 1.5] +
                    [float(e.time_interval[0]) for e in elems] +
                    [float(e.time_interval[1]) for e in elems] +
                    [float(e.time_interval[0]) + 0.37 * float(e.h_t)
                     for e in elems]))
            vals, vals_exact = [], []
            for elem_pt in elems:
                x_a, x_b = elem_pt.space_interval
                x_hats = [float(x_a), float(x_b)] + list(
                    float(x_a) + float(elem_pt.h_x) * gauss.points)
                gamma = elem_pt.gamma_space
                for x_hat in x_hats:
                    x = gamma(np.array([x_hat]))
                    for elem_trial in elems:
                        for t in ts:
                            vals.append(
                                SL.evaluate(elem_trial, t, x_hat,
                                            x.reshape(2, 1)))
                            if polygon and elem_trial.gamma_space is gamma:
                                vals_exact.append(
                                    SL.evaluate_exact(elem_trial, t, x_hat))
            rec(('evaluate', dom), vals)
            rec(('evaluate_exact', dom), vals_exact)

    # ------------------------------------------------------------------
    # B. The full pipeline: assemble, solve, residual, element means.
    if 'pipeline' in what:
        cases = [
            ('Dirichlet', 'UnitSquare', 11, 12, 0),
            ('MildSingular', 'LShape', 12, 8, 0),
            ('Dirichlet', 'Circle', 13, 8, 0),
            ('MildSingular', 'PiSquare', 14, 6, 0),
            ('Singular', 'UnitSquare', 15, 5, 0),
            ('Singular', 'LShape', 17, 3, 0),
            ('Smooth', 'UnitSquare', 16, 3, 0),
            ('Smooth', 'PiSquare', 18, 2, 0),
        ]
        for problem, dom, seed, n_ref, unif in cases:
            gamma_cls, initial_mesh = domains[dom]
            mesh = build_mesh(np, MeshParametrized, gamma_cls, seed, n_ref,
                              unif)
            if dom == 'LShape':
                for elem in list(mesh.leaf_elements):
                    if elem.h_x > 1: mesh.refine_space(elem)
            data = problem_helper(problem, dom)
            rec(('data-keys', problem, dom),
                [hash_str(k) for k in sorted(data)])
            elems = list(mesh.leaf_elements)
            N = len(elems)
            for exact in (False, True):
                SL = SingleLayerOperator(mesh, pw_exact=exact)
                mat = SL.bilform_matrix(elems, elems)
                rhs = np.zeros(N)
                M0u0 = g = None
                if 'u0' in data:
                    M0 = InitialOperator(bdr_mesh=mesh,
                                         u0=data['u0'],
                                         initial_mesh=initial_mesh)
                    rhs = -M0.linform_vector(elems=elems)
                    M0u0 = data['M0u0']
                if 'g' in data:
                    g = data['g']
                    rhs += data['g-linform'](elems)
                Phi = np.linalg.solve(mat, rhs)
                buf = io.StringIO()
                with contextlib.redirect_stdout(buf):
                    estim = ErrorEstimator(mesh, N_poly=(3, 1, 3, 3))
                res[('stdout', problem, dom, exact)] = buf.getvalue()
                residual = estim.residual(elems,
                                          Phi,
                                          SL,
                                          M0u0,
                                          g,
                                          SL_exact_eval=exact)
                quad = ProductScheme2D(gauss_quadrature_scheme(5))
                means, allvals = [], []
                for elem in elems:
                    t = np.array(elem.time_interval[0] +
                                 elem.h_t * quad.points[0])
                    x_hat = np.array(elem.space_interval[0] +
                                     elem.h_x * quad.points[1])
                    r = residual(t, x_hat, elem.gamma_space)
                    assert isinstance(r, np.ndarray) and r.dtype == float
                    allvals.append(r)
                    means.append(np.dot(r, quad.weights))
                rec(('mat', problem, dom, exact), mat)
                rec(('rhs', problem, dom, exact), rhs)
                rec(('Phi', problem, dom, exact), Phi)
                rec(('residual', problem, dom, exact), allvals)
                rec(('means', problem, dom, exact), means)
                # Estimators that consume the residual.
                if 'estimators' in what and N <= 24:
                    rec(('weighted_l2', problem, dom, exact),
                        estim.estimate_weighted_l2(elems, residual))
                    rec(('sobolev_time', problem, dom, exact),
                        estim.sobolev_time(elems[0], residual)[0])
                    rec(('sobolev_space', problem, dom, exact),
                        estim.sobolev_space(elems[-1], residual)[0])

    # ------------------------------------------------------------------
    # C. Problem data.
    if 'problems' in what:
        ts = np.array([1e-3, 0.01, 0.1, 0.5, 1.0, 2.0])
        for problem, dom, scale in [('Smooth', 'UnitSquare', 1.0),
                                    ('Smooth', 'PiSquare', np.pi),
                                    ('Singular', 'UnitSquare', 1.0),
                                    ('Singular', 'LShape', 1.0)]:
            data = problem_helper(problem, dom)
            pts = np.array([[0, 0], [0.5, 0], [1, 0.25], [1, 1], [0.3, 1],
                            [0, 0.9], [-1, 0.5], [-0.5, 1]]).T * scale
            out = []
            for t in ts:
                out.append(data['M0u0'](t, pts))
                for p in pts.T:
                    out.append(
                        [np.squeeze(data['M0u0'](t, p.reshape(2, 1)))])
            rec(('M0u0', problem, dom), np.concatenate(
                [np.ravel(o) for o in out]))
            rec(('u0', problem, dom),
                np.ravel(data['u0'](pts)) * np.ones(pts.shape[1]))
            if 'u-trace' in data:
                rec(('u-trace', problem, dom),
                    data['u-trace'](0.3, np.linspace(0, 4 * scale, 17)))
        mesh = build_mesh(np, MeshParametrized, UnitSquare, 21, 10)
        elems = list(mesh.leaf_elements)
        for problem in ('Dirichlet', 'MildSingular'):
            for dom in ('UnitSquare', 'PiSquare', 'LShape', 'Circle'):
                data = problem_helper(problem, dom)
                rec(('g-linform', problem, dom), data['g-linform'](elems))
                rec(('g', problem, dom),
                    [data['g'](t, None) for t in (0.0, 0.25, 1.0)])
        for problem, dom in [('Smooth', 'LShape'), ('Singular', 'Circle'),
                             ('Foo', 'UnitSquare'), ('Smooth', 'Bar')]:
            buf = io.StringIO()
            try:
                with contextlib.redirect_stdout(buf):
                    problem_helper(problem, dom)
                outcome = 'ok'
            except AssertionError:
                outcome = 'AssertionError'
            res[('invalid', problem, dom)] = (outcome, buf.getvalue())

    with open(out_path, 'wb') as f:
        pickle.dump(res, f)


def hash_str(s):
    return float(sum((i + 1) * ord(c) for i, c in enumerate(s)))


WHAT = 'evaluate,pipeline,estimators'
RTOL = 1e-13


def run_worker(root, out_path):
    import subprocess
    env = dict(os.environ)
    env.pop('PYTHONPATH', None)
    env['PYTHONDONTWRITEBYTECODE'] = '1'
    proc = subprocess.run([
        sys.executable,
        os.path.abspath(__file__), '--worker',
        os.path.abspath(root), out_path, WHAT
    ],
                          env=env,
                          stdout=subprocess.PIPE,
                          stderr=subprocess.PIPE,
                          text=True)
    if proc.returncode != 0:
        print('worker failed for', root)
        print(proc.stdout[-2000:])
        print(proc.stderr[-4000:])
        sys.exit(2)
    with open(out_path, 'rb') as f:
        return pickle.load(f)


def compare(res_a, res_b):
    import numpy as np
    ok = True
    n_bitwise = n_close = 0
    if sorted(map(repr, res_a)) != sorted(map(repr, res_b)):
        print('DIFFERENT KEYS')
        return False
    for key in res_a:
        a, b = res_a[key], res_b[key]
        is_arr = (isinstance(a, tuple) and len(a) == 2
                  and isinstance(a[0], bytes))
        if not is_arr:
            if a != b:
                print('MISMATCH (exact)', key, repr(a)[:200], repr(b)[:200])
                ok = False
            else:
                n_bitwise += 1
            continue
        if a[1] != b[1]:
            print('MISMATCH (shape)', key, a[1], b[1])
            ok = False
            continue
        if a[0] == b[0]:
            n_bitwise += 1
            continue
        x = np.frombuffer(a[0]).reshape(a[1])
        y = np.frombuffer(b[0]).reshape(b[1])
        scale = max(np.max(np.abs(x)), np.max(np.abs(y)), 1e-300)
        err = np.max(np.abs(x - y)) / scale
        if np.array_equal(np.isnan(x), np.isnan(y)) and err <= RTOL:
            n_close += 1
            print('close, not bitwise:', key, 'rel err %.2e' % err)
        else:
            print('MISMATCH', key, 'rel err %.2e' % err)
            ok = False
    print('%d outputs bitwise identical, %d equal to %g' %
          (n_bitwise, n_close, RTOL))
    return ok


if __name__ == '__main__':
    if len(sys.argv) >= 2 and sys.argv[1] == '--worker':
        main(sys.argv[2], sys.argv[3], set(sys.argv[4].split(',')))
        sys.exit(0)
    if len(sys.argv) != 3:
        print(__doc__)
        sys.exit(2)
    import tempfile
    t0 = time.time()
    with tempfile.TemporaryDirectory() as tmp:
        res_a = run_worker(sys.argv[1], os.path.join(tmp, 'a.pkl'))
        res_b = run_worker(sys.argv[2], os.path.join(tmp, 'b.pkl'))
    good = compare(res_a, res_b)
    print('EQUIVALENT' if good else 'NOT EQUIVALENT',
          '(%.1fs)' % (time.time() - t0))
    sys.exit(0 if good else 1)
