#!/usr/bin/env python
"""Equivalence check for property C08 (initial-potential load vector).

Usage:  python equiv.py <repo_root_A> <repo_root_B>

FOCUS: k=3 (medium): src/initial_mesh.py, vertex_from_coords as a comprehension, refine_msh_bdr with an extracted helper, guard clause and temporaries (mesh/* records: leaves, vertices, returned element, vertex look-ups, failure modes; and everything built on top of them).

The script re-runs itself once per repository root in a fresh subprocess
(`--worker <root>`), so that the two copies of the library never share a
Python process.  Each worker exercises

  * time_integrated_kernel (a == 0 and a > 0),
  * InitialMesh.refine_msh_bdr / vertex_from_coords on the unit square,
    the pi square and the L-shape,
  * InitialOperator.linform (total and the per-domain-cell contributions) for
    every element of randomly refined boundary meshes on the three domains
    and several initial data,
  * InitialOperator.linform_vector (plain, with an element subset, with the
    on-disk cache: stored and re-loaded) including what it prints,
  * InitialOperator.evaluate / evaluate_mesh,
  * the closed forms M0u0 in problems.py,

and dumps everything as JSON (floats as hex strings, i.e. bitwise).  The
parent compares the two dumps: exit status 0 iff all records agree bitwise or,
failing that, to 1e-13 relative.
"""
import json
import os
import subprocess
import sys

RTOL = 1e-13


# --------------------------------------------------------------------------
# worker
# --------------------------------------------------------------------------
def _hex(x):
    import numpy as np
    arr = np.asarray(x, dtype=float).ravel()
    return [float(v).hex() for v in arr]


def worker(root):
    import contextlib
    import io
    import random
    import re
    import tempfile

    sys.path.insert(0, root)
    os.chdir(root)
    import numpy as np

    import problems
    from src import initial_mesh as im
    from src import initial_potential as ip
    from src.mesh import MeshParametrized
    from src.parametrization import LShape, PiSquare, UnitSquare

    for mod in (problems, im, ip):
        assert os.path.realpath(mod.__file__).startswith(
            os.path.realpath(root)), (mod.__file__, root)

    out = {}

    # ---- time integrated kernel ------------------------------------------
    xy = np.concatenate([
        np.linspace(1e-8, 3, 41),
        np.array([1e-12, 0.5, 7.25, 19.0]),
    ])
    for a, b in [(0, 1), (0, 0.25), (0.0, 0.125), (0.25, 0.5), (0.5, 1.0),
                 (0.125, 0.1875), (1, 2)]:
        out['kernel/{}/{}'.format(a, b)] = _hex(
            ip.time_integrated_kernel(a, b)(xy))
    out['FPI_INV'] = _hex(ip.FPI_INV)

    # ---- domain meshes matched to a boundary segment ------------------------
    def mesh_dump(mesh):
        return {
            'leaves': sorted(repr(e) for e in mesh.leaf_elements),
            'n_elements': len(mesh.elements),
            'vertices': [repr(v) for v in mesh.vertices],
            'levels': sorted((repr(e), e.level) for e in mesh.leaf_elements),
        }

    segs = {
        'UnitSquare': (im.UnitSquare, im.UnitSquareBoundaryRefined, [
            ((0, 0), (1, 0)),
            ((0.25, 0), (0.5, 0)),
            ((1, 0.375), (1, 0.5)),
            ((1, 0.5), (1, 0.375)),
            ((0.5, 1), (0.4375, 1)),
            ((0, 0.0625), (0, 0)),
            ((0.96875, 1), (1, 1)),
        ]),
        'PiSquare': (im.PiSquare, im.PiSquareBoundaryRefined, [
            ((0, 0), (np.pi, 0)),
            ((np.pi / 4, 0), (np.pi / 2, 0)),
            ((np.pi, np.pi * 3 / 8), (np.pi, np.pi / 2)),
            ((np.pi / 2, np.pi), (np.pi * 7 / 16, np.pi)),
            ((0, np.pi / 16), (0, 0)),
        ]),
        'LShape': (im.LShape, im.LShapeBoundaryRefined, [
            ((0, 0), (0, -1)),
            ((0, -0.5), (0, -0.25)),
            ((0.5, -1), (0.75, -1)),
            ((1, -1), (1, 0)),
            ((1, 0.125), (1, 0.25)),
            ((0.5, 1), (0.375, 1)),
            ((-1, 1), (-0.5, 1)),
            ((-1, 0.25), (-1, 0.125)),
            ((-0.125, 0), (0, 0)),
        ]),
    }
    for name, (coarse, refined, lst) in segs.items():
        for i, (p, q) in enumerate(lst):
            msh = coarse()
            ret = msh.refine_msh_bdr(p, q)
            rec = mesh_dump(msh)
            rec['returned'] = repr(ret)
            msh2 = refined(np.array(p, dtype=float).reshape(2, 1),
                           np.array(q, dtype=float).reshape(2, 1))
            rec['refined_leaves'] = sorted(
                repr(e) for e in msh2.leaf_elements)
            probes = [p, q, (p[0] + 1e-13, p[1]), (0.3, 0.3), (5, 5),
                      ((p[0] + q[0]) / 2, (p[1] + q[1]) / 2)]
            rec['vfc'] = [repr(msh.vertex_from_coords(z)) for z in probes]
            rec['vfc_idx'] = [
                getattr(msh.vertex_from_coords(np.array(z).reshape(2, 1)),
                        'idx', None) for z in probes
            ]
            out['mesh/{}/{}'.format(name, i)] = rec
        # Non axis-aligned / absent edges must fail in the same way.
        for j, (p, q) in enumerate([((0, 0), (1, 1)), ((0.3, 0.3),
                                                       (0.3, 0.6))]):
            try:
                coarse().refine_msh_bdr(p, q)
                res = 'ok'
            except Exception as e:  # noqa
                res = type(e).__name__
            out['mesh/{}/bad{}'.format(name, j)] = res

    # ---- linform ------------------------------------------------------------
    def ones(y):
        return np.ones(y.shape[1])

    def sine(y):
        return np.sin(np.pi * y[0]) * np.sin(np.pi * y[1])

    def sine_pi(y):
        return np.sin(y[0]) * np.sin(y[1])

    def mixed(y):
        return np.sin(y[0]) * y[1] + 0.25 * y[0]**2

    domains = {
        'UnitSquare': (UnitSquare, im.UnitSquareBoundaryRefined,
                       [('const', problems.singular_square()['u0']),
                        ('ones', ones),
                        ('sine', problems.smooth_square()['u0']),
                        ('mixed', mixed)], 14),
        'PiSquare': (PiSquare, im.PiSquareBoundaryRefined,
                     [('ones', ones),
                      ('sine', problems.smooth_pisquare()['u0']),
                      ('mixed', mixed)], 8),
        'LShape': (LShape, im.LShapeBoundaryRefined,
                   [('const', problems.singular_lshape()['u0']),
                    ('sine', sine), ('mixed', mixed)], 16),
    }

    def linform_dump(M0, elem):
        val, ips = M0.linform(elem)
        ips = sorted((repr(e), float(v).hex()) for e, v in ips)
        return {
            'elem': repr(elem),
            'time': _hex(elem.time_interval),
            'space': _hex(elem.space_interval),
            'val': float(val).hex(),
            'ips': ips
        }

    for name, (gamma, refined, u0s, n_ref) in domains.items():
        mesh = MeshParametrized(gamma())
        mesh.uniform_refine()
        random.seed(11)
        for _ in range(n_ref):
            elem = random.choice([
                e for e in mesh.leaf_elements
                if e.time_interval[0] == 0. or random.random() < 0.2
            ])
            mesh.refine_axis(elem, random.random() < 0.5)
        elems = list(mesh.leaf_elements)
        out['linform/{}/n'.format(name)] = len(elems)
        for k, (u0name, u0) in enumerate(u0s):
            M0 = ip.InitialOperator(bdr_mesh=mesh,
                                    u0=u0,
                                    initial_mesh=refined)
            # All elements for the first datum, a stride for the others.
            sub = elems if k == 0 else elems[k::4]
            out['linform/{}/{}'.format(name, u0name)] = [
                linform_dump(M0, e) for e in sub
            ]

        # Coarse elements (the domain cell is the whole square / a big cell).
        mesh0 = MeshParametrized(gamma())
        M0 = ip.InitialOperator(bdr_mesh=mesh0,
                                u0=u0s[-1][1],
                                initial_mesh=refined)
        coarse_rec = []
        for e in mesh0.leaf_elements:
            try:
                coarse_rec.append(linform_dump(M0, e))
            except Exception as exc:  # noqa
                coarse_rec.append(type(exc).__name__)
        out['linform/{}/coarse'.format(name)] = coarse_rec

        # Other quadrature order.
        M0 = ip.InitialOperator(bdr_mesh=mesh,
                                u0=u0s[-1][1],
                                initial_mesh=refined,
                                quad_int=7)
        out['linform/{}/quad7'.format(name)] = [
            linform_dump(M0, e) for e in elems[::9]
        ]

    # ---- linform_vector (+ printed output, cache) ---------------------------
    def masked(s, *dirs):
        for d in dirs:
            s = s.replace(d, '<DIR>')
        return re.sub(r'took [-+0-9.e]+s', 'took <T>s', s)

    for name, (gamma, refined, u0s, _) in domains.items():
        mesh = MeshParametrized(gamma())
        mesh.uniform_refine()
        random.seed(3)
        for _ in range(3):
            mesh.refine_axis(random.choice(list(mesh.leaf_elements)),
                             random.random() < 0.5)
        u0 = u0s[-1][1]
        buf = io.StringIO()
        with tempfile.TemporaryDirectory() as tmp, \
                contextlib.redirect_stdout(buf):
            M0 = ip.InitialOperator(bdr_mesh=mesh,
                                    u0=u0,
                                    initial_mesh=refined)
            vec = M0.linform_vector()
            sub = list(mesh.leaf_elements)[2:6]
            vec_sub = M0.linform_vector(elems=sub)
            M0c = ip.InitialOperator(bdr_mesh=mesh,
                                     u0=u0,
                                     initial_mesh=refined,
                                     cache_dir=tmp,
                                     problem='prob_' + name)
            vec_c1 = M0c.linform_vector(elems=sub)
            files = sorted(os.listdir(tmp))
            vec_c2 = M0c.linform_vector(elems=sub)
            M0d = ip.InitialOperator(bdr_mesh=mesh,
                                     u0=u0,
                                     initial_mesh=refined,
                                     cache_dir=tmp)
            vec_d = M0d.linform_vector(elems=sub[:3])
            files2 = sorted(os.listdir(tmp))
            M0e = ip.InitialOperator(bdr_mesh=mesh,
                                     u0=u0,
                                     initial_mesh=refined,
                                     cache_dir=os.path.join(tmp, 'missing'))
            vec_e = M0e.linform_vector(elems=sub[:2])
            printed = masked(buf.getvalue(), tmp)
        out['vector/{}'.format(name)] = {
            'vec': _hex(vec),
            'shape': list(np.shape(vec)),
            'dtype': str(vec.dtype),
            'sub': _hex(vec_sub),
            'c1': _hex(vec_c1),
            'c2': _hex(vec_c2),
            'd': _hex(vec_d),
            'e': _hex(vec_e),
            'files': files,
            'files2': files2,
            'printed': printed,
            'problem': M0d.problem,
        }

    # linform without a domain mesh must fail identically.
    mesh = MeshParametrized(UnitSquare())
    try:
        ip.InitialOperator(mesh, ones).linform(list(mesh.leaf_elements)[0])
        out['linform/no_mesh'] = 'ok'
    except Exception as e:  # noqa
        out['linform/no_mesh'] = type(e).__name__

    # ---- evaluate / evaluate_mesh -------------------------------------------
    pts = [[[0.5], [0.5]], [[0.5], [0.]], [[1.], [1.]], [[0.2], [0.9]],
           [[0.], [0.3]]]
    for name, (gamma, refined, u0s, _) in domains.items():
        mesh = MeshParametrized(gamma())
        scale = np.pi if name == 'PiSquare' else 1.
        for u0name, u0 in u0s:
            if u0name == 'const':
                continue
            for qe in (19, 31):
                M0 = ip.InitialOperator(bdr_mesh=mesh, u0=u0, quad_eval=qe)
                vals = []
                for t in (1, 0.5, 0.1, 0.01):
                    for x in pts:
                        vals.append(
                            M0.evaluate(t, (scale * np.array(x)).tolist()))
                out['evaluate/{}/{}/{}'.format(name, u0name, qe)] = _hex(vals)
        M0 = ip.InitialOperator(bdr_mesh=mesh, u0=u0s[-1][1])
        vals = []
        for (p, q) in segs[name][2][:4]:
            msh = refined(np.array(p, dtype=float).reshape(2, 1),
                          np.array(q, dtype=float).reshape(2, 1))
            x = (np.array(p, dtype=float).reshape(2, 1) +
                 np.array(q, dtype=float).reshape(2, 1)) / 2
            for t in (0.5, 0.05):
                vals.append(M0.evaluate_mesh(t, x, msh))
        out['evaluate_mesh/{}'.format(name)] = _hex(vals)

    # ---- closed forms -------------------------------------------------------
    grid = np.array([[0., 0.5, 1., 0.25, 0.75, 0.1],
                     [0.5, 0., 0.3, 1., 0.75, 0.9]])
    for fn, sc in (('smooth_square', 1.), ('smooth_pisquare', np.pi),
                   ('singular_square', 1.), ('singular_lshape', 1.)):
        data = getattr(problems, fn)()
        vals = [data['M0u0'](t, sc * grid) for t in (1., 0.3, 0.05, 0.004)]
        out['problems/{}'.format(fn)] = _hex(np.array(vals))
        out['problems/{}/keys'.format(fn)] = sorted(data.keys())
    for prob, dom in (('Smooth', 'UnitSquare'), ('Smooth', 'PiSquare'),
                      ('Singular', 'UnitSquare'), ('Singular', 'LShape')):
        data = problems.problem_helper(prob, dom)
        out['problems/helper/{}/{}'.format(prob, dom)] = sorted(data.keys())

    sys.stdout = sys.__stdout__
    print('@@JSON@@' + json.dumps(out))


# --------------------------------------------------------------------------
# comparison
# --------------------------------------------------------------------------
def is_hex_float(s):
    return isinstance(s, str) and ('0x' in s or s in ('nan', 'inf', '-inf'))


def compare(a, b, path, report):
    """ Returns True if a and b agree; records non-bitwise matches. """
    if isinstance(a, dict) and isinstance(b, dict):
        if sorted(a.keys()) != sorted(b.keys()):
            report['fail'].append((path, 'keys differ'))
            return False
        return all([compare(a[k], b[k], path + '/' + k, report) for k in a])
    if isinstance(a, list) and isinstance(b, list):
        if len(a) != len(b):
            report['fail'].append((path, 'length differs'))
            return False
        return all([
            compare(x, y, '{}[{}]'.format(path, i), report)
            for i, (x, y) in enumerate(zip(a, b))
        ])
    if is_hex_float(a) and is_hex_float(b):
        report['n'] += 1
        if a == b:
            return True
        fa, fb = float.fromhex(a), float.fromhex(b)
        if fa != fa and fb != fb:
            return True
        err = abs(fa - fb) / max(abs(fa), abs(fb), 1e-300)
        report['max_err'] = max(report['max_err'], err)
        if err <= RTOL:
            report['approx'].append((path, err))
            return True
        report['fail'].append((path, 'rel err {:.3e}'.format(err)))
        return False
    if a != b:
        report['fail'].append((path, '{!r} != {!r}'.format(a, b)))
        return False
    return True


def run_worker(root):
    env = dict(os.environ)
    env.pop('PYTHONPATH', None)
    env['PYTHONDONTWRITEBYTECODE'] = '1'
    env['PYTHONHASHSEED'] = '0'
    proc = subprocess.Popen(
        [sys.executable,
         os.path.abspath(__file__), '--worker',
         os.path.abspath(root)],
        stdout=subprocess.PIPE,
        stderr=subprocess.PIPE,
        env=env,
        cwd=os.path.abspath(root))
    return proc


def main():
    if len(sys.argv) == 3 and sys.argv[1] == '--worker':
        worker(sys.argv[2])
        return 0
    if len(sys.argv) != 3:
        print(__doc__)
        return 2
    procs = [run_worker(r) for r in sys.argv[1:3]]
    dumps = []
    for root, proc in zip(sys.argv[1:3], procs):
        so, se = proc.communicate()
        so = so.decode()
        if proc.returncode != 0 or '@@JSON@@' not in so:
            print('worker for {} failed (exit {})'.format(
                root, proc.returncode))
            print(se.decode()[-4000:])
            return 1
        dumps.append(json.loads(so.split('@@JSON@@', 1)[1]))

    report = {'fail': [], 'approx': [], 'max_err': 0., 'n': 0}
    ok = compare(dumps[0], dumps[1], '', report)
    print('{} records, {} floats compared; {} not bitwise (max rel err '
          '{:.3e})'.format(len(dumps[0]), report['n'], len(report['approx']),
                           report['max_err']))
    for path, msg in report['fail'][:40]:
        print('MISMATCH', path, msg)
    if ok and not report['fail']:
        print('EQUIVALENT')
        return 0
    print('NOT EQUIVALENT')
    return 1


if __name__ == '__main__':
    sys.exit(main())
