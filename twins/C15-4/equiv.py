"""Equivalence check for refactorings of src/quadrature.py (property C15).

Usage: python equiv.py <repo_root_A> <repo_root_B>

Each root is imported in its own subprocess; the worker builds every scheme
class (1-D rules, mirrors, tensor products, 2-D / 3-D Duffy transformations),
records points, weights and integrate() values for a set of integrands and
target intervals / rectangles / boxes, and dumps everything as hex floats.
The parent compares the two dumps: exit 0 iff all keys agree bitwise or, where
not bitwise, to 1e-13 relative.
"""
import json
import subprocess
import sys

WORKER = r'''
import sys, json
root = sys.argv[1]
sys.path.insert(0, root)
import numpy as np
import src.quadrature as Q
assert Q.__file__.startswith(root), (Q.__file__, root)

out = {}

def rec(key, val):
    arr = np.atleast_1d(np.asarray(val, dtype=float)).ravel()
    assert key not in out, key
    out[key] = {"shape": list(np.shape(val)), "hex": [float(v).hex() for v in arr]}

def rec_scheme(key, s):
    rec(key + "/points", s.points)
    rec(key + "/weights", s.weights)

# ---------------------------------------------------------------- 1D rules
schemes1d = {}
for n in (1, 3, 5, 7, 11):
    schemes1d["gauss%d" % n] = Q.gauss_quadrature_scheme(n)
for n in (1, 3, 5):
    schemes1d["gsqrtinv%d" % n] = Q.gauss_sqrtinv_quadrature_scheme(n)
for n in (1, 2, 3, 4):
    schemes1d["gx%d" % n] = Q.gauss_x_quadrature_scheme(n)
for n in (1, 3, 5):
    schemes1d["glog%d" % n] = Q.gauss_log_quadrature_scheme(n)
for n in (0, 1, 2, 3, 5):
    schemes1d["log%d" % n] = Q.log_quadrature_scheme(n, n)
for n, (np_, nl) in ((0, (0, 0)), (1, (1, 2)), (3, (3, 3))):
    schemes1d["loglog%d" % n] = Q.log_log_quadrature_scheme(np_, nl)
for name, fn in (("sqrt", Q.sqrt_quadrature_scheme),
                 ("sqrtinv", Q.sqrtinv_quadrature_scheme)):
    for n in (1, 2, 3):
        try:
            schemes1d["%s%d" % (name, n)] = fn(n, n)
        except Exception as e:
            out["%s%d/exc" % (name, n)] = {"shape": [], "hex": [type(e).__name__]}

intervals = [(0.0, 1.0), (-1.5, 2.25), (3.0, 3.0 + 1e-3), (0.1, 0.7), (2, 5),
             (1.0, 1.0), (-7.0, -7.0)]
funcs1d = {
    "one": lambda x: np.ones_like(x),
    "x": lambda x: x,
    "poly": lambda x: 1 - 2 * x + 3 * x**2 - 0.5 * x**5,
    "exp": lambda x: np.exp(-x * x) * np.cos(3 * x),
    "x7": lambda x: x**7,
}
for name, s in schemes1d.items():
    rec_scheme("1d/" + name, s)
    m = s.mirror()
    rec_scheme("1d/" + name + "/mirror", m)
    out["1d/" + name + "/mirror_cached"] = {"shape": [], "hex": [str(s.mirror() is m)]}
    rec_scheme("1d/" + name + "/mirror2", m.mirror())
    for (a, b) in intervals:
        for fname, f in funcs1d.items():
            rec("1d/%s/int/%s/%r_%r" % (name, fname, a, b), s.integrate(f, a, b))
            rec("1d/%s/mint/%s/%r_%r" % (name, fname, a, b), m.integrate(f, a, b))

# ---------------------------------------------------------------- 2D
funcs2d = {
    "one": lambda x: np.ones_like(x[0]),
    "poly": lambda x: 1 + x[0] - 2 * x[1] + x[0] * x[1]**2 - 3 * x[0]**3,
    "sym": lambda x: (x[0] + x[1])**3 + x[0] * x[1],
    "logsing": lambda x: np.log(np.abs(x[0] - x[1]) + 1e-3),
    "exp": lambda x: np.exp(x[0] - 0.5 * x[1]) * np.sin(x[0] * x[1]),
}
rects = [(0.0, 1.0, 0.0, 1.0), (-1.0, 2.0, 0.5, 0.75), (2, 3, -4, -1),
         (0.3, 0.3 + 1e-4, 1.0, 9.0)]

def exercise2d(key, s, depth=1):
    rec_scheme(key, s)
    for (a, b, c, d) in rects:
        for fname, f in funcs2d.items():
            rec("%s/int/%s/%r" % (key, fname, (a, b, c, d)), s.integrate(f, a, b, c, d))
    if depth:
        mx = s.mirror_x()
        my = s.mirror_y()
        out[key + "/mirror_cached"] = {"shape": [], "hex": [str(s.mirror_x() is mx and s.mirror_y() is my)]}
        out[key + "/mirror_type"] = {"shape": [], "hex": [type(mx).__name__, type(my).__name__]}
        exercise2d(key + "/mx", mx, 0)
        exercise2d(key + "/my", my, 0)
        exercise2d(key + "/mxmx", mx.mirror_x(), 0)
        exercise2d(key + "/mymy", my.mirror_y(), 0)
        exercise2d(key + "/mxmy", mx.mirror_y(), 0)
        exercise2d(key + "/mymx", my.mirror_x(), 0)

pairs2d = [("gauss3", None), ("gauss5", "gauss1"), ("gauss1", "gauss7"),
           ("log2", "gauss5"), ("log3", "log2"), ("loglog1", "loglog1"),
           ("gx2", "glog3"), ("log0", "log0"), ("gauss11", None)]
prod2d = {}
for sx, sy in pairs2d:
    key = "2d/prod_%s_%s" % (sx, sy)
    if sy is None:
        p = Q.ProductScheme2D(schemes1d[sx])
    else:
        p = Q.ProductScheme2D(schemes1d[sx], schemes1d[sy])
    prod2d[key] = p
    exercise2d(key, p)
    p2 = Q.ProductScheme2D(schemes1d[sx].mirror(), schemes1d[sy or sx])
    exercise2d(key + "/mirrored_factor", p2, 0)

for key, p in list(prod2d.items()):
    for sym in (True, False, 1, 0):
        d = Q.DuffyScheme2D(p, symmetric=sym)
        exercise2d(key + "/duffy_%r" % (sym,), d, 1 if sym in (True, False) else 0)
    # duffy of a mirrored scheme and positional use
    d = Q.DuffyScheme2D(p.mirror_y(), False)
    exercise2d(key + "/my/duffy_pos", d, 0)

# raw QuadScheme2D from lists / tuples
raw2 = Q.QuadScheme2D([[0.25, 0.5, 0.125], [0.75, 0.0625, 0.5]], [0.25, 0.5, 0.25])
exercise2d("2d/raw", raw2)
exercise2d("2d/raw/duffyT", Q.DuffyScheme2D(raw2, True))
exercise2d("2d/raw/duffyF", Q.DuffyScheme2D(raw2, False))

class FakeQuadpy:
    points = np.array([[-0.5, 0.25, 0.75], [0.5, -0.125, 0.0]])
    weights = np.array([1.0, 2.0, 1.0])
exercise2d("2d/quadpy", Q.QuadpyScheme2D(FakeQuadpy()))

# ---------------------------------------------------------------- 3D
funcs3d = {
    "one": lambda x: np.ones_like(x[0]),
    "poly": lambda x: 1 + x[0] - 2 * x[1] + 3 * x[2] + x[0] * x[1] * x[2] - x[2]**3 + x[0]**2 * x[1],
    "symxy": lambda x: (x[0] + x[1])**2 * x[2] + x[0] * x[1],
    "logsing": lambda x: np.log((x[0] - x[1])**2 + x[2]**2 + 1e-6),
    "exp": lambda x: np.exp(x[0] - 0.5 * x[1] + 0.25 * x[2]) * np.cos(x[0] * x[2]),
}
boxes = [(0.0, 1.0, 0.0, 1.0, 0.0, 1.0), (-1.0, 2.0, 0.5, 0.75, 3.0, 3.5),
         (2, 3, -4, -1, 0, 2), (0.0, 1e-3, 0.0, 1e-3, 0.0, 1e-6)]

def exercise3d(key, s, depth=1):
    rec_scheme(key, s)
    for box in boxes:
        for fname, f in funcs3d.items():
            rec("%s/int/%s/%r" % (key, fname, box), s.integrate(f, *box))
    if depth:
        ms = {"mx": s.mirror_x(), "my": s.mirror_y(), "mz": s.mirror_z()}
        out[key + "/mirror_cached"] = {"shape": [], "hex": [str(
            s.mirror_x() is ms["mx"] and s.mirror_y() is ms["my"] and s.mirror_z() is ms["mz"])]}
        out[key + "/mirror_type"] = {"shape": [], "hex": [type(m).__name__ for m in ms.values()]}
        for n1, m in ms.items():
            exercise3d(key + "/" + n1, m, 0)
            for n2 in ("mx", "my", "mz"):
                mm = getattr(m, "mirror_" + n2[1])()
                rec_scheme(key + "/" + n1 + n2, mm)
                rec(key + "/" + n1 + n2 + "/int", mm.integrate(funcs3d["exp"], *boxes[1]))

prod3d = {}
for name in ("gauss1", "gauss3", "gauss5", "log1", "log2", "loglog0", "gx3"):
    key = "3d/prod_" + name
    p = Q.ProductScheme3D(schemes1d[name])
    prod3d[key] = p
    exercise3d(key, p)

for key, p in prod3d.items():
    for sym in (True, False):
        exercise3d(key + "/duffyI_%r" % sym, Q.DuffySchemeIdentical3D(p, symmetric_xy=sym))
    exercise3d(key + "/duffyI_pos1", Q.DuffySchemeIdentical3D(p, 1), 0)
    exercise3d(key + "/duffyI_pos0", Q.DuffySchemeIdentical3D(p, 0), 0)
    exercise3d(key + "/duffyT", Q.DuffySchemeTouch3D(p))
    exercise3d(key + "/mz/duffyT", Q.DuffySchemeTouch3D(p.mirror_z()), 0)
    exercise3d(key + "/mx/duffyI", Q.DuffySchemeIdentical3D(p.mirror_x(), False), 0)

raw3 = Q.QuadScheme3D([[0.25, 0.5, 0.125, 0.875], [0.75, 0.0625, 0.5, 0.3],
                       [0.1, 0.2, 0.3, 0.4]], [0.25, 0.25, 0.25, 0.25])
exercise3d("3d/raw", raw3)
exercise3d("3d/raw/duffyI_T", Q.DuffySchemeIdentical3D(raw3, True), 0)
exercise3d("3d/raw/duffyI_F", Q.DuffySchemeIdentical3D(raw3, False), 0)
exercise3d("3d/raw/duffyT", Q.DuffySchemeTouch3D(raw3), 0)

# assertion behaviour of the constructors / integrate
def raises(fn):
    try:
        fn()
    except AssertionError:
        return "AssertionError"
    except Exception as e:
        return type(e).__name__
    return "ok"

g3 = schemes1d["gauss3"]
p2 = prod2d["2d/prod_gauss3_None"]
p3 = prod3d["3d/prod_gauss3"]
checks = {
    "1d_small": lambda: g3.integrate(funcs1d["x"], 0.0, 1e-6),
    "1d_neg": lambda: g3.integrate(funcs1d["x"], 1.0, 0.0),
    "2d_small_x": lambda: p2.integrate(funcs2d["one"], 0.0, 1e-8, 0.0, 1.0),
    "2d_small_y": lambda: p2.integrate(funcs2d["one"], 0.0, 1.0, 0.0, 1e-8),
    "prod2d_bad": lambda: Q.ProductScheme2D(p2),
    "prod2d_bad_y": lambda: Q.ProductScheme2D(g3, p2),
    "prod3d_bad": lambda: Q.ProductScheme3D(p2),
    "duffy2d_bad": lambda: Q.DuffyScheme2D(g3, True),
    "duffy2d_bad3": lambda: Q.DuffyScheme2D(p3, False),
    "duffyI_bad": lambda: Q.DuffySchemeIdentical3D(p2, True),
    "duffyT_bad": lambda: Q.DuffySchemeTouch3D(p2),
    "gauss_even": lambda: Q.gauss_quadrature_scheme(4),
}
for k, fn in checks.items():
    out["raises/" + k] = {"shape": [], "hex": [raises(fn)]}

json.dump(out, sys.stdout)
'''


def run(root):
    import os
    root = os.path.abspath(root)
    res = subprocess.run([sys.executable, "-c", WORKER, root],
                         capture_output=True, text=True, cwd="/")
    if res.returncode != 0:
        sys.stderr.write(res.stderr)
        raise SystemExit("worker failed for %s" % root)
    return json.loads(res.stdout)


def main():
    if len(sys.argv) != 3:
        raise SystemExit(__doc__)
    A = run(sys.argv[1])
    B = run(sys.argv[2])
    bad = 0
    nonbitwise = 0
    if set(A) != set(B):
        print("key sets differ:", sorted(set(A) ^ set(B))[:10])
        bad += 1
    for key in sorted(set(A) & set(B)):
        a, b = A[key], B[key]
        if a == b:
            continue
        ok = a["shape"] == b["shape"] and len(a["hex"]) == len(b["hex"])
        if ok:
            for ha, hb in zip(a["hex"], b["hex"]):
                try:
                    va, vb = float.fromhex(ha), float.fromhex(hb)
                except ValueError:
                    ok = ha == hb
                    if not ok:
                        break
                    continue
                if va == vb or (va != va and vb != vb):
                    continue
                if abs(va - vb) <= 1e-13 * max(abs(va), abs(vb)):
                    nonbitwise += 1
                    continue
                ok = False
                break
        if not ok:
            bad += 1
            if bad <= 10:
                print("MISMATCH", key)
    print("compared %d records, %d mismatching, %d values equal only to 1e-13"
          % (len(A), bad, nonbitwise))
    sys.exit(1 if bad else 0)


if __name__ == "__main__":
    main()
