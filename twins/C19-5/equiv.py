"""Equivalence check for refactorings of Mesh.refine_grading (property C19).

Usage: python equiv.py <repo_root_A> <repo_root_B>

Each root is exercised in its own subprocess (so that the two `src` packages
never live in the same interpreter).  The worker builds a collection of meshes
(plain / glued / parametrized over several curves), brings them into many
different reachable states (random axis refinements, uniform refinements,
Doerfler markings), grades them with a range of (sigma, K) and records a
complete fingerprint of the outcome: stdout, gmsh string, vertex coordinates
(hex floats), leaf order, levels, global indices, neighbour structure.
The fingerprints must agree bitwise.
"""
import json
import os
import subprocess
import sys

WORKER = r'''
import contextlib, io, json, random, sys
root = sys.argv[1]
sys.path.insert(0, root)
import numpy as np
from src.mesh import Mesh, MeshParametrized
from src.parametrization import (Circle, LShape, PiSquare, UnitInterval,
                                 UnitSquare)
import src.mesh as mesh_mod
assert mesh_mod.__file__.startswith(root), (mesh_mod.__file__, root)


def fingerprint(mesh):
    leaves = list(mesh.leaf_elements)
    out = {}
    out['N_elements'] = mesh.N_elements
    out['n_vertices'] = len(mesh.vertices)
    out['vertices'] = [(v.idx, float(v.t).hex(), float(v.x).hex())
                       for v in mesh.vertices]
    out['gmsh'] = mesh.gmsh()
    out['md5'] = mesh.md5()
    out['leaves'] = [
        (e.glob_idx, list(e.levels), [v.idx for v in e.vertices],
         float(e.h_t).hex(), float(e.h_x).hex(),
         e.parent.glob_idx if e.parent else -1) for e in leaves
    ]
    out['nbrs'] = [[sorted(n.glob_idx for n in edge.neighbour_elements())
                    for edge in e.edges] for e in leaves]
    return out


def window_ok(mesh, sigma, K):
    return all(e.h_t / K < e.h_x**sigma < K * e.h_t
               for e in mesh.leaf_elements)


def make_meshes():
    yield 'plain', lambda: Mesh()
    yield 'plain_glued', lambda: Mesh(glue_space=True,
                                      initial_space_mesh=[0., 0.3, 0.8, 1.])
    yield 'plain_tx', lambda: Mesh(initial_space_mesh=[0., 0.25, 1., 1.5],
                                   initial_time_mesh=[0., 0.5, 2.])
    yield 'circle', lambda: MeshParametrized(Circle())
    yield 'unitsquare', lambda: MeshParametrized(UnitSquare())
    yield 'lshape', lambda: MeshParametrized(LShape())
    yield 'pisquare', lambda: MeshParametrized(PiSquare())
    yield 'interval', lambda: MeshParametrized(UnitInterval())
    yield 'lshape_T', lambda: MeshParametrized(
        LShape(), initial_time_mesh=[0., 0.1, 1., 3.])


def perturb(mesh, mode, seed):
    rnd = random.Random(seed)
    if mode == 'none':
        return
    if mode == 'random':
        for _ in range(30):
            elem = rnd.choice(list(mesh.leaf_elements))
            mesh.refine_axis(elem, rnd.random() < 0.5)
    elif mode == 'time_heavy':
        for _ in range(14):
            elem = rnd.choice(list(mesh.leaf_elements))
            mesh.refine_axis(elem, int(rnd.random() < 0.3))
    elif mode == 'space_heavy':
        for _ in range(14):
            elem = rnd.choice(list(mesh.leaf_elements))
            mesh.refine_axis(elem, int(rnd.random() < 0.7))
    elif mode == 'uniform':
        mesh.uniform_refine()
        mesh.uniform_refine_space()
    elif mode == 'dorfler':
        rs = np.random.RandomState(seed)
        for _ in range(3):
            eta = rs.rand(len(mesh.leaf_elements), 2)
            mesh.dorfler_refine_anisotropic(eta, 0.6)
        for _ in range(1):
            eta = rs.rand(len(mesh.leaf_elements))
            mesh.dorfler_refine_isotropic(eta, 0.5)
    else:
        raise ValueError(mode)


results = {}
params = [(None, None), (2, 4), (1, 4), (1.5, 4), (1.25, 2), (2, 2), (1.75, 8),
          (2.0, 3.0)]
modes = ['none', 'random', 'time_heavy', 'space_heavy', 'uniform', 'dorfler']
case = 0
for name, ctor in make_meshes():
    for mode in modes:
        # Rotate through the parameter list, two parameter sets per state.
        for rep in range(2):
            sigma, K = params[(case + rep * 3) % len(params)]
            seed = 1000 + case
            buf = io.StringIO()
            rec = {}
            with contextlib.redirect_stdout(buf):
                mesh = ctor()
                perturb(mesh, mode, seed)
                before = set(mesh.leaf_elements)
                n_before = len(before)
                try:
                    if sigma is None:
                        ret = mesh.refine_grading()
                        sigma, K = 2, 4
                    else:
                        ret = mesh.refine_grading(sigma=sigma, K=K)
                    rec['ret'] = repr(ret)
                    rec['error'] = None
                except Exception as exc:  # must agree between the trees too
                    rec['error'] = '{}: {}'.format(type(exc).__name__, exc)
                # Grading once more: must be a no-op on both sides.
                fp1 = fingerprint(mesh)
                mesh.refine_grading(sigma=sigma, K=K)
                fp2 = fingerprint(mesh)
            rec['stdout'] = buf.getvalue()
            rec['fp'] = fp1
            rec['idempotent'] = (fp1 == fp2)
            rec['window'] = window_ok(mesh, sigma, K)
            rec['only_refines'] = len(mesh.leaf_elements) >= n_before
            results['{}|{}|{}|{}'.format(name, mode, sigma, K)] = rec
        case += 1

json.dump(results, sys.stdout, sort_keys=True)
'''


def start(root):
    root = os.path.abspath(root)
    env = dict(os.environ)
    env.pop('PYTHONPATH', None)
    env['PYTHONDONTWRITEBYTECODE'] = '1'
    env['PYTHONHASHSEED'] = '0'
    return root, subprocess.Popen([sys.executable, '-c', WORKER, root],
                                  cwd='/',
                                  env=env,
                                  stdout=subprocess.PIPE,
                                  stderr=subprocess.PIPE)


def finish(root, proc):
    try:
        out, err = proc.communicate(timeout=900)
    except subprocess.TimeoutExpired:
        proc.kill()
        print('worker timed out for', root)
        sys.exit(2)
    if proc.returncode != 0:
        sys.stderr.write(err.decode())
        print('worker failed for', root)
        sys.exit(2)
    return json.loads(out.decode())


def main():
    if len(sys.argv) != 3:
        print(__doc__)
        sys.exit(2)
    # Both workers run concurrently, each in its own interpreter.
    job_a = start(sys.argv[1])
    job_b = start(sys.argv[2])
    res_a = finish(*job_a)
    res_b = finish(*job_b)
    bad = 0
    if sorted(res_a) != sorted(res_b):
        print('different case sets')
        sys.exit(1)
    for key in sorted(res_a):
        a, b = res_a[key], res_b[key]
        if a != b:
            bad += 1
            fields = [f for f in a if a[f] != b.get(f)]
            print('MISMATCH in case {}: fields {}'.format(key, fields))
    print('{} cases compared, {} mismatches'.format(len(res_a), bad))
    # Sanity: the property itself holds on the reference side.
    n_prop = sum(1 for r in res_a.values()
                 if r['error'] is None and r['window'] and r['idempotent'])
    print('property holds in {} / {} cases on A'.format(n_prop, len(res_a)))
    sys.exit(1 if bad else 0)


if __name__ == '__main__':
    main()
