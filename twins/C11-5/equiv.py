#!/usr/bin/env python
"""Equivalence check for a behaviour-preserving refactoring (property C11:
Galerkin entries are additive under splitting of either element).

Usage:  python equiv.py <repo_root_A> <repo_root_B>

Each root is imported in its own subprocess.  The worker exercises
  * SingleLayerOperator.bilform / bilform_matrix on leaves, on mesh parents vs
    mesh children (time halves, space halves, quarters) and on DummyElement
    children produced by DummyElement.uniform_refinement,
  * the private panel integrator SingleLayerOperator.__integrate directly on
    hand-picked rectangles (identical, touching, glued, disjoint, overlapping,
    contained; equal and unequal sizes),
  * double_time_integrated_kernel,
  * HierarchicalErrorEstimator.estimate,
on several curves (circle, unit square, pi square, L-shape, open interval),
uniform and anisotropic meshes, and both pw_exact settings.  Every float is
recorded as float.hex(); the two records must have the same keys and the values
must agree bitwise or to 1e-13 relative.  Exit status 0 iff they agree.
"""
import json
import os
import subprocess
import sys
import tempfile

FOCUS = "k5 split panel integrator, corner loop in time kernel, unified bilform branches, comprehension refinement"


# --------------------------------------------------------------------------
# worker
# --------------------------------------------------------------------------
def worker(root, out_fn):
    sys.path.insert(0, root)
    os.chdir(root)
    import numpy as np
    from src.hierarchical_error_estimator import (DummyElement,
                                                  HierarchicalErrorEstimator)
    from src.mesh import MeshParametrized
    from src.parametrization import (Circle, LShape, PiSquare, UnitInterval,
                                     UnitSquare)
    from src.single_layer import (SingleLayerOperator,
                                  double_time_integrated_kernel)

    rec = []

    def put(key, val):
        if isinstance(val, str):
            rec.append([key, 's', val])
            return
        if isinstance(val, (list, tuple)):
            arr = list(val)
        else:
            arr = list(np.asarray(val, dtype=float).ravel())
        rec.append([
            key, 'f',
            [v if isinstance(v, str) else float(v).hex() for v in arr]
        ])

    def guarded(func, *args):
        """ Calls func; an exception is recorded by its type name. """
        try:
            return func(*args)
        except Exception as exc:
            return 'EXC:' + type(exc).__name__

    # ---- meshes ----------------------------------------------------------
    def make_mesh(gamma, n_uniform, aniso):
        mesh = MeshParametrized(gamma)
        for _ in range(n_uniform):
            mesh.uniform_refine()
        if aniso:
            leaves = list(mesh.leaf_elements)
            # Refine some leaves only in space, others only in time, so that
            # neighbouring panels of different lengths occur.
            for elem in leaves[::3]:
                if not elem.children: mesh.refine_space(elem)
            leaves = list(mesh.leaf_elements)
            for elem in leaves[1::4]:
                if not elem.children: mesh.refine_time(elem)
            leaves = list(mesh.leaf_elements)
            for elem in leaves[::5]:
                if not elem.children: mesh.refine_space(elem)
        return mesh

    cases = [
        ('circle_u1', Circle(), 1, False, False),
        ('circle_aniso', Circle(), 0, True, False),
        ('square_u1', UnitSquare(), 1, False, False),
        ('square_u1_exact', UnitSquare(), 1, False, True),
        ('square_aniso', UnitSquare(), 0, True, False),
        ('pisquare_u0', PiSquare(), 0, False, False),
        ('lshape_aniso', LShape(), 0, True, False),
        ('lshape_aniso_exact', LShape(), 0, True, True),
        ('interval_u2', UnitInterval(), 2, False, False),
        ('interval_aniso', UnitInterval(), 1, True, False),
    ]

    for name, gamma, n_uniform, aniso, pw_exact in cases:
        mesh = make_mesh(gamma, n_uniform, aniso)
        SL = SingleLayerOperator(mesh, pw_exact=pw_exact)
        elems = list(mesh.leaf_elements)
        put(name + '/N', [len(elems)])
        put(name + '/elems', repr(elems))

        # Leaves against leaves, both through the matrix and entrywise.
        sub = elems[:14]
        mat = SL.bilform_matrix(sub, sub)
        put(name + '/mat_leaf', mat)
        put(name + '/bilform_leaf',
            [SL.bilform(e_trial, e_test) for e_test in sub[:6]
             for e_trial in sub[:6]])

        # Mesh parents versus their mesh children (halves and quarters).
        parents = []
        for elem in elems:
            p = elem.parent
            while p is not None:
                if p not in parents: parents.append(p)
                p = p.parent
        parents = parents[:6]
        for ip, par in enumerate(parents):
            kids = list(par.children)
            grandkids = [g for k in kids for g in (k.children or (k, ))]
            bil = lambda e1, e2: guarded(SL.bilform, e1, e2)
            for io, other in enumerate(parents[:4]):
                key = '{}/split/{}_{}'.format(name, ip, io)
                put(key + '/pp', [bil(other, par), bil(par, other)])
                put(key + '/cp', [bil(other, k) for k in kids] +
                    [bil(k, other) for k in kids])
                put(key + '/gp', [bil(other, g) for g in grandkids] +
                    [bil(g, other) for g in grandkids])
            put('{}/split/{}/self'.format(name, ip),
                [bil(k1, k2) for k1 in kids + grandkids
                 for k2 in kids + grandkids])

        # DummyElement children of the estimator.
        coarse = elems[:8]
        fam = DummyElement.uniform_refinement(coarse)
        put(name + '/dummy/len', [len(fam)] + [len(ch) for ch in fam])
        for i, children in enumerate(fam):
            for j, ch in enumerate(children):
                key = '{}/dummy/{}_{}'.format(name, i, j)
                put(key + '/repr', repr(ch))
                put(key + '/vtx',
                    [c for v in ch.vertices for c in (v.t, v.x, v.idx)])
                put(key + '/ivals',
                    list(ch.time_interval) + list(ch.space_interval) +
                    [ch.h_t, ch.h_x])
                put(key + '/types', ' '.join(
                    type(z).__name__
                    for z in (ch.h_t, ch.h_x, ch.time_interval,
                              ch.space_interval, ch.vertices)))
                put(key + '/gamma',
                    str(ch.gamma_space is coarse[i].gamma_space))
        fine = [ch for children in fam for ch in children]
        put(name + '/dummy/mat_fc', SL.bilform_matrix(fine, coarse))
        put(name + '/dummy/mat_cf', SL.bilform_matrix(coarse[:4], fine[:16]))
        for i, children in enumerate(fam[:5]):
            put('{}/dummy/S{}'.format(name, i),
                SL.bilform_matrix(children, children))
            put('{}/dummy/pc{}'.format(name, i),
                [SL.bilform(coarse[i], ch) for ch in children] +
                [SL.bilform(ch, coarse[i]) for ch in children] +
                [SL.bilform(coarse[i], coarse[i])])

        # Hierarchical estimator (kept below 100 entries so that it does not
        # need a process pool).
        est_elems = elems[:4]
        hier = HierarchicalErrorEstimator(
            SL=SL, g=lambda es: np.array([0.3 + e.h_t * e.h_x for e in es]))
        Phi = np.array([1.0, -0.5, 0.25, 2.0])[:len(est_elems)]
        put(name + '/estim', hier.estimate(est_elems, Phi))
        hier0 = HierarchicalErrorEstimator(SL=SL)
        put(name + '/estim0', hier0.estimate(est_elems, Phi))

    # ---- bilform_matrix: default arguments, cache directory, messages ------
    import contextlib
    import io
    import re
    import shutil
    cache_dir = tempfile.mkdtemp(prefix='equiv_cache_')
    try:
        for name, gamma in [('circle', Circle()), ('square', UnitSquare())]:
            mesh = make_mesh(gamma, 1, False)
            SL = SingleLayerOperator(mesh, cache_dir=cache_dir)
            elems = list(mesh.leaf_elements)
            buf = io.StringIO()
            with contextlib.redirect_stdout(buf):
                put('cache/{}/computed'.format(name), SL.bilform_matrix())
                put('cache/{}/loaded'.format(name), SL.bilform_matrix())
                put('cache/{}/small'.format(name),
                    SL.bilform_matrix(elems[:3]))
                put('cache/{}/rect'.format(name),
                    SL.bilform_matrix(elems[:3], elems[2:9]))
            text = buf.getvalue().replace(cache_dir, '<CACHE>')
            text = re.sub(r'took [-+.0-9e]+s', 'took <T>s', text)
            put('cache/{}/stdout'.format(name), text)
        put('cache/files', repr(sorted(os.listdir(cache_dir))))
    finally:
        shutil.rmtree(cache_dir, ignore_errors=True)

    # ---- the private panel integrator, directly --------------------------
    integrate_name = '_SingleLayerOperator__integrate'
    for name, gamma in [('circle', Circle()), ('square', UnitSquare()),
                        ('interval', UnitInterval())]:
        mesh = MeshParametrized(gamma)
        SL = SingleLayerOperator(mesh)
        integrate = getattr(SL, integrate_name)
        L = SL.gamma_len
        funcs = {
            'log': lambda x: np.log(np.abs(x[0] - x[1]) + 1e-30 *
                                    (x[0] == x[1])) * (1 + x[0] * x[1]),
            'smooth': lambda x: np.cos(x[0]) + x[1]**2 - x[0] * x[1],
            'chord': lambda x: np.log(
                np.sum((gamma.eval(x[0]) - gamma.eval(x[1]))**2, axis=0) +
                1e-300),
        }
        u = L / 8
        rects = [
            (0, u, 0, u),  # identical
            (u, 3 * u, u, 3 * u),  # identical
            (0, u, u, 2 * u),  # touch, equal
            (0, 2 * u, 2 * u, 3 * u),  # touch, first longer
            (0, 4 * u, 4 * u, 5 * u),  # touch, first much longer
            (u, 2 * u, 2 * u, 4 * u),  # touch, second longer
            (u, 2 * u, 2 * u, 7 * u),  # touch, second much longer
            (0, u, 7 * u, L),  # glued (if closed), equal
            (0, 2 * u, 7 * u, L),  # glued, first longer
            (0, u, 5 * u, L),  # glued, second longer
            (0, u, 6 * u, L),  # glued, second longer
            (u, 2 * u, 3 * u, 4 * u),  # disjoint, near on the left
            (u, 2 * u, 6 * u, L),  # disjoint
            (0.5 * u, u, 7 * u, 7.5 * u),  # disjoint, nearer through glue
            (0, u, 4 * u, 5 * u),  # disjoint, equidistant
            (0, 4 * u, 0, 2 * u),  # first longer, same start
            (0, 4 * u, u, 2 * u),  # second strictly inside first
            (0, 2 * u, 0, 4 * u),  # first contained in second, same start
            (u, 3 * u, 2 * u, 4 * u),  # overlap
            (u, 3 * u, 2 * u, 3 * u),  # overlap, same end
            (0, L / 2, L / 2, L),  # two halves, touching on both sides
            (0, L, 0, L),  # whole curve
        ]
        for fname, func in funcs.items():
            for ir, (a, b, c, d) in enumerate(rects):
                a, b, c, d = float(a), float(b), float(c), float(d)
                put('integrate/{}/{}/{}'.format(name, fname, ir),
                    [guarded(integrate, func, a, b, c, d)])

    # ---- time integrated kernel -------------------------------------------
    x_pts = np.array([[0.0, 0.1, 0.5, 1.0, 3.0], [0.01, 0.0, 0.2, -1.0, 0.5]])
    intervals = [(0, 1, 0, 1), (1.5, 3, 1.5, 3), (1.5, 3, 2, 5),
                 (1.5, 3, 3, 5), (1.5, 3, 4, 5), (1.5, 3, 1, 5),
                 (1.5, 3, 1, 1.5), (1.5, 3, 1, 2), (1.5, 3, 0, 0.5),
                 (0, 0.5, 0.5, 1), (0.5, 1, 0, 0.5), (0.25, 0.5, 0, 1),
                 (0, 1, 0.25, 0.5), (0.0, 0.125, 0.0, 0.25)]
    for i, (a, b, c, d) in enumerate(intervals):
        G = double_time_integrated_kernel(a, b, c, d)
        val = G(x_pts)
        put('dtik/{}/type'.format(i), type(val).__name__)
        put('dtik/{}/arr'.format(i), val)
        val = G(np.array([0.3, 0.4]))
        put('dtik/{}/scal_type'.format(i), type(val).__name__)
        put('dtik/{}/scal'.format(i), val)

    with open(out_fn, 'w') as fh:
        json.dump(rec, fh)


# --------------------------------------------------------------------------
# driver
# --------------------------------------------------------------------------
def run(root):
    root = os.path.abspath(root)
    fd, out_fn = tempfile.mkstemp(suffix='.json')
    os.close(fd)
    try:
        env = dict(os.environ)
        env['PYTHONDONTWRITEBYTECODE'] = '1'
        env.pop('PYTHONPATH', None)
        proc = subprocess.run(
            [sys.executable, os.path.abspath(__file__), '--worker', root,
             out_fn],
            stdout=subprocess.PIPE,
            stderr=subprocess.STDOUT,
            env=env,
            cwd=root)
        if proc.returncode != 0:
            print(proc.stdout.decode(errors='replace')[-4000:])
            raise SystemExit('worker failed for {}'.format(root))
        with open(out_fn) as fh:
            return json.load(fh)
    finally:
        os.unlink(out_fn)


def compare(rec_a, rec_b, rtol=1e-13):
    bad = 0
    n_float = n_bitwise = 0
    if len(rec_a) != len(rec_b):
        print('different number of records: {} vs {}'.format(
            len(rec_a), len(rec_b)))
        return False
    for (ka, ta, va), (kb, tb, vb) in zip(rec_a, rec_b):
        if ka != kb or ta != tb:
            print('record mismatch: {} vs {}'.format(ka, kb))
            bad += 1
            continue
        if ta == 's':
            if va != vb:
                print('string differs at {}: {!r} vs {!r}'.format(
                    ka, va[:200], vb[:200]))
                bad += 1
            continue
        if len(va) != len(vb):
            print('length differs at {}'.format(ka))
            bad += 1
            continue
        for xa, xb in zip(va, vb):
            n_float += 1
            if xa == xb:
                n_bitwise += 1
                continue
            if xa.startswith('EXC:') or xb.startswith('EXC:'):
                print('outcome differs at {}: {} vs {}'.format(ka, xa, xb))
                bad += 1
                continue
            fa, fb = float.fromhex(xa), float.fromhex(xb)
            if fa != fa and fb != fb:
                continue
            scale = max(abs(fa), abs(fb))
            if not abs(fa - fb) <= rtol * scale:
                print('value differs at {}: {!r} vs {!r}'.format(ka, fa, fb))
                bad += 1
    print('{}: compared {} records, {} floats ({} bitwise equal), {} '
          'mismatches'.format(FOCUS, len(rec_a), n_float, n_bitwise, bad))
    return bad == 0


def main():
    if len(sys.argv) == 4 and sys.argv[1] == '--worker':
        worker(sys.argv[2], sys.argv[3])
        return 0
    if len(sys.argv) != 3:
        print(__doc__)
        return 2
    rec_a = run(sys.argv[1])
    rec_b = run(sys.argv[2])
    return 0 if compare(rec_a, rec_b) else 1


if __name__ == '__main__':
    sys.exit(main())
