#!/usr/bin/env python
"""Equivalence check for refactorings of src/mesh.py (property C10).

Usage:  python equiv.py <repo_root_A> <repo_root_B>

Each root is exercised in a separate subprocess (so that the two copies of
the `src` package never meet in one interpreter).  The subprocess builds a
collection of meshes (plain / glued, open / closed curves, several initial
partitions), drives them through deterministic pseudo-random refinement
sequences and dumps the complete half-edge structure: every vertex, every
element of the refinement tree, every edge with its flags, parent/children
/nbr_edge links and the result of Edge.neighbour_elements().  Floats are
dumped as hex, so the comparison of the two dumps is bitwise.
Exit status 0 iff the two dumps are identical.
"""
import json
import subprocess
import sys


# --------------------------------------------------------------------------
# Worker part: runs with one repository root on sys.path.
# --------------------------------------------------------------------------
def fhex(val):
    return float(val).hex()


def dump_mesh(mesh):
    """ Serialises the whole refinement tree / half-edge structure. """
    elems = []
    stack = list(reversed(mesh.roots))
    while stack:
        elem = stack.pop()
        elems.append(elem)
        stack.extend(reversed(list(elem.children)))

    # Number all reachable edges in order of first encounter.
    edge_ids = {}
    edge_list = []

    def visit(edge):
        todo = [edge]
        while todo:
            e = todo.pop()
            if e is None or id(e) in edge_ids:
                continue
            edge_ids[id(e)] = len(edge_list)
            edge_list.append(e)
            todo.extend(reversed([e.parent, e.nbr_edge] + list(e.children)))

    for elem in elems:
        for edge in elem.edges:
            visit(edge)

    def eid(edge):
        return None if edge is None else edge_ids[id(edge)]

    def gidx(elem):
        if elem is None:
            return None
        return getattr(elem, 'glob_idx', 'noidx')

    pw_gamma = None
    if hasattr(mesh, 'gamma_space'):
        pw_gamma = list(mesh.gamma_space.pw_gamma)

    def gamma_id(elem):
        if elem.gamma_space is None:
            return None
        if pw_gamma is None:
            return 'unknown'
        for i, g in enumerate(pw_gamma):
            if g is elem.gamma_space:
                return i
        return 'foreign'

    out = {}
    out['glue_space'] = bool(mesh.glue_space)
    out['N_elements'] = mesh.N_elements
    out['vertices'] = [(v.idx, fhex(v.t), fhex(v.x)) for v in mesh.vertices]
    out['roots'] = [gidx(r) for r in mesh.roots]
    out['leaves'] = [gidx(e) for e in mesh.leaf_elements]
    out['elems'] = []
    for elem in elems:
        out['elems'].append({
            'glob_idx': gidx(elem),
            'levels': list(elem.levels),
            'vertices': [v.idx for v in elem.vertices],
            'parent': gidx(elem.parent),
            'children': [gidx(c) for c in elem.children],
            'edges': [eid(e) for e in elem.edges],
            'edges_axis': [[eid(e) for e in elem.edges_axis(ax)]
                           for ax in (0, 1)],
            'h': [fhex(elem.h_t), fhex(elem.h_x)],
            'center': [fhex(elem.center.t),
                       fhex(elem.center.x)],
            'gamma': gamma_id(elem),
            'repr': repr(elem),
        })
    out['edges'] = []
    for edge in edge_list:
        try:
            nbrs = [gidx(el) for el in edge.neighbour_elements()]
        except AssertionError:
            nbrs = 'AssertionError'
        out['edges'].append({
            'vertices': [v.idx for v in edge.vertices],
            'parent': eid(edge.parent),
            'children': [eid(c) for c in edge.children],
            'children_type': type(edge.children).__name__,
            'nbr_edge': eid(edge.nbr_edge),
            'elem': gidx(edge.elem),
            'on_boundary': edge.on_boundary,
            'on_boundary_type': type(edge.on_boundary).__name__,
            'glued': edge.glued,
            'glued_type': type(edge.glued).__name__,
            'space_edge': bool(edge.space_edge),
            'time_edge': bool(edge.time_edge),
            'neighbours': nbrs,
            'repr': repr(edge),
        })
    # The property itself, observed at the leaves.
    out['leaf_neighbours'] = []
    for elem in mesh.leaf_elements:
        out['leaf_neighbours'].append([
            gidx(elem),
            [[gidx(n) for n in edge.neighbour_elements()]
             for edge in elem.edges],
            [(edge.on_boundary, edge.glued) for edge in elem.edges],
        ])
    out['md5'] = mesh.md5()
    return out


def random_refine(mesh, rng, steps):
    """ Deterministic pseudo-random sequence of local refinements. """
    log = []
    for _ in range(steps):
        leaves = list(mesh.leaf_elements)
        elem = leaves[rng.randint(len(leaves))]
        op = rng.randint(3)
        if op == 0:
            kids = mesh.refine_time(elem)
        elif op == 1:
            kids = mesh.refine_space(elem)
        else:
            kids = mesh.refine(elem)
        log.append((elem.glob_idx, op, [k.glob_idx for k in kids]))
    return log


def corner_refine(mesh, steps, corner):
    """ Repeatedly refines the leaf that touches a given corner/seam. """
    log = []
    for s in range(steps):
        best = None
        for elem in mesh.leaf_elements:
            key = (abs(elem.vertices[0].t - corner[0]),
                   abs(elem.vertices[0].x - corner[1]), elem.glob_idx)
            if best is None or key < best[0]:
                best = (key, elem)
        elem = best[1]
        if s % 3 == 0:
            kids = mesh.refine(elem)
        elif s % 3 == 1:
            kids = mesh.refine_space(elem)
        else:
            kids = mesh.refine_time(elem)
        log.append((elem.glob_idx, [k.glob_idx for k in kids]))
    return log


def edge_level_scenarios(mesh_mod):
    """ Drives Edge.bisect / Edge.neighbour_elements directly. """
    Vertex, Edge = mesh_mod.Vertex, mesh_mod.Edge
    res = []

    def state(edges, names):
        ids = {id(e): n for e, n in zip(edges, names)}

        def nm(e):
            if e is None:
                return None
            return ids.get(id(e), '?')

        st = []
        for e, n in zip(edges, names):
            try:
                nb = list(e.neighbour_elements())
            except AssertionError:
                nb = 'AssertionError'
            st.append([
                n,
                nm(e.nbr_edge),
                nm(e.parent), [nm(c) for c in e.children], e.on_boundary,
                e.glued, nb,
                repr(e)
            ])
        return st

    for glued in (False, True):
        for order in (0, 1):
            a = Vertex(0.0, 0.0, 0)
            b = Vertex(0.0, 1.0, 1)
            if glued:
                c = Vertex(0.0, 3.0, 2)
                d = Vertex(0.0, 4.0, 3)
            else:
                c, d = a, b
            e = Edge((a, b))
            f = Edge((d, c))
            e.nbr_edge, f.nbr_edge = f, e
            e.glued = f.glued = glued
            e.on_boundary = f.on_boundary = glued
            e.elem, f.elem = 'E', 'F'
            edges, names = [e, f], ['e', 'f']
            res.append(state(edges, names))

            m = Vertex(0.0, 0.5, 4)
            m2 = Vertex(0.0, 3.5, 5) if glued else m
            first, second = (e, f) if order == 0 else (f, e)
            vfirst, vsecond = (m, m2) if order == 0 else (m2, m)
            ch = first.bisect(vfirst)
            assert ch is first.children
            ch[0].elem, ch[1].elem = 'c0', 'c1'
            first.elem = None
            edges += list(ch)
            names += ['c0', 'c1']
            res.append(state(edges, names))
            # Bisecting again is a no-op returning the same children.
            again = first.bisect(vfirst)
            res.append([again is ch, type(again).__name__])

            ch2 = second.bisect(vsecond)
            ch2[0].elem, ch2[1].elem = 'd0', 'd1'
            second.elem = None
            edges += list(ch2)
            names += ['d0', 'd1']
            res.append(state(edges, names))

            # One level deeper on one side only.
            q = Vertex(0.0, 0.25, 6)
            gc = ch[0].bisect(q)
            gc[0].elem, gc[1].elem = 'g0', 'g1'
            ch[0].elem = None
            edges += list(gc)
            names += ['g0', 'g1']
            res.append(state(edges, names))

    # Boundary edge: children inherit the flag and have no neighbours.
    a = Vertex(0.0, 0.0, 0)
    b = Vertex(1.0, 0.0, 1)
    e = Edge((a, b))
    e.on_boundary = True
    e.elem = 'E'
    ch = e.bisect(Vertex(0.5, 0.0, 2))
    res.append(state([e] + list(ch), ['e', 'c0', 'c1']))
    res.append([e.space_edge, e.time_edge])

    # Interior edge without any neighbour must trip the assertion.
    e = Edge((a, b))
    try:
        e.neighbour_elements()
        res.append('no assertion')
    except AssertionError:
        res.append('AssertionError')
    return res


def worker(root):
    import contextlib
    import io
    sys.path.insert(0, root)
    import numpy as np
    from src import mesh as mesh_mod
    from src import parametrization as par
    assert mesh_mod.__file__.startswith(root), mesh_mod.__file__

    results = []
    buf = io.StringIO()
    with contextlib.redirect_stdout(buf):
        results.append(['edge_level', edge_level_scenarios(mesh_mod)])

        # --- plain meshes, with and without glue --------------------------
        space_meshes = [[0, 1], [0, 0.5, 1], [0, 0.25, 0.5, 1.0],
                        [0, 1, 2, 3, 4], [0.0, 0.3, 1.7, 2.0, 3.1, 6.0]]
        time_meshes = [[0, 1], [0, 0.5, 1], [0, 0.1, 0.4, 1]]
        seed = 0
        for glue in (False, True):
            for sm in space_meshes:
                for tm in time_meshes:
                    seed += 1
                    m = mesh_mod.Mesh(glue_space=glue,
                                      initial_space_mesh=sm,
                                      initial_time_mesh=tm)
                    results.append(['init', glue, sm, tm, dump_mesh(m)])
                    rng = np.random.RandomState(seed)
                    try:
                        log = random_refine(m, rng, 25)
                    except AssertionError:
                        log = 'AssertionError'
                    results.append(
                        ['random', glue, sm, tm, log,
                         dump_mesh(m)])

        # Default constructor arguments.
        m = mesh_mod.Mesh()
        m.uniform_refine()
        m.refine_space(list(m.leaf_elements)[0])
        m.uniform_refine_space()
        results.append(['default', dump_mesh(m)])

        # Strong local refinement towards corners and the seam.
        for glue in (False, True):
            for corner in ((0.0, 0.0), (1.0, 0.0), (0.0, 3.0), (0.5, 1.0)):
                m = mesh_mod.Mesh(glue_space=glue,
                                  initial_space_mesh=[0, 1, 2, 3],
                                  initial_time_mesh=[0, 0.5, 1])
                log = corner_refine(m, 14, corner)
                results.append(['corner', glue, corner, log, dump_mesh(m)])

        # --- parametrised meshes ------------------------------------------
        curves = [('Circle', par.Circle), ('UnitSquare', par.UnitSquare),
                  ('PiSquare', par.PiSquare), ('LShape', par.LShape),
                  ('UnitInterval', par.UnitInterval)]
        for name, ctor in curves:
            gamma = ctor()
            m = mesh_mod.MeshParametrized(gamma)
            results.append([name, 'init', dump_mesh(m)])
            m.uniform_refine()
            results.append([name, 'uniform', dump_mesh(m)])
            rng = np.random.RandomState(len(name))
            log = random_refine(m, rng, 20)
            results.append([name, 'random', log, dump_mesh(m)])

            eta = rng.rand(len(m.leaf_elements))
            m.dorfler_refine_isotropic(eta, 0.5)
            results.append([name, 'dorfler_iso', dump_mesh(m)])

            eta = rng.rand(len(m.leaf_elements), 2)
            m.dorfler_refine_anisotropic(eta, 0.6)
            results.append([name, 'dorfler_aniso', dump_mesh(m)])

            m2 = mesh_mod.MeshParametrized(gamma,
                                           initial_time_mesh=[0, 0.5, 1])
            m2.refine_grading(sigma=2, K=4)
            results.append([name, 'grading', dump_mesh(m2)])
            log = corner_refine(m2, 8, (0.0, 0.0))
            results.append([name, 'grading+corner', log, dump_mesh(m2)])
            results.append([name, 'gmsh', m2.gmsh()])

        # User supplied initial space mesh on a closed curve.
        gamma = par.UnitSquare()
        m = mesh_mod.MeshParametrized(gamma,
                                      initial_space_mesh=[0, 2, 4],
                                      initial_time_mesh=[0, 1, 2])
        results.append(['UnitSquare-coarse', dump_mesh(m)])
        m = mesh_mod.MeshParametrized(par.Circle(),
                                      initial_space_mesh=[0, 2 * np.pi])
        log = random_refine(m, np.random.RandomState(99), 30)
        results.append(['Circle-single', log, dump_mesh(m)])

    results.append(['stdout', buf.getvalue()])
    sys.stdout.write(json.dumps(results, sort_keys=True, default=repr))


# --------------------------------------------------------------------------
# Driver part.
# --------------------------------------------------------------------------
def run(root):
    import os
    root = os.path.abspath(root)
    proc = subprocess.run([sys.executable, os.path.abspath(__file__),
                           '--worker', root],
                          stdout=subprocess.PIPE,
                          stderr=subprocess.PIPE,
                          cwd=root,
                          timeout=110)
    if proc.returncode != 0:
        sys.stderr.write(proc.stderr.decode())
        raise SystemExit('worker failed for {}'.format(root))
    return proc.stdout.decode()


def first_difference(a, b, path='$'):
    if type(a) != type(b):
        return '{}: type {} vs {}'.format(path, type(a).__name__,
                                          type(b).__name__)
    if isinstance(a, dict):
        if sorted(a) != sorted(b):
            return '{}: keys differ'.format(path)
        for k in sorted(a):
            d = first_difference(a[k], b[k], '{}.{}'.format(path, k))
            if d:
                return d
        return None
    if isinstance(a, list):
        if len(a) != len(b):
            return '{}: len {} vs {}'.format(path, len(a), len(b))
        for i, (x, y) in enumerate(zip(a, b)):
            d = first_difference(x, y, '{}[{}]'.format(path, i))
            if d:
                return d
        return None
    if a != b:
        return '{}: {!r} vs {!r}'.format(path, a, b)
    return None


def main():
    if len(sys.argv) == 3 and sys.argv[1] == '--worker':
        worker(sys.argv[2])
        return 0
    if len(sys.argv) != 3:
        sys.stderr.write(__doc__)
        return 2
    out_a = run(sys.argv[1])
    out_b = run(sys.argv[2])
    if out_a == out_b:
        n = len(json.loads(out_a))
        print('EQUIVALENT: {} scenario records, {} bytes of dump identical'.
              format(n, len(out_a)))
        return 0
    diff = first_difference(json.loads(out_a), json.loads(out_b))
    print('DIFFERENT: {}'.format(diff))
    return 1


if __name__ == '__main__':
    sys.exit(main())
