#!/usr/bin/env python
"""Equivalence check for refactorings of the assembly / cache code (property C17).

Usage:  python equiv.py <repo_root_A> <repo_root_B>

For each root a subprocess imports the library from that root, assembles the
dense single-layer matrix and the initial-potential vector through every path
(inline, serial loop, process pool, cache miss, cache hit, corrupt / truncated
/ empty cache file), also the cached error-estimator arrays, and dumps all
results (raw bytes of the arrays, array layout flags, names and md5 of the files
written into the cache directories and the sanitised stdout of the library).
The parent compares both dumps: exit status 0 iff they agree (bitwise; numeric
arrays are allowed to differ by 1e-13 relative as a fallback).
"""
import hashlib
import io
import json
import os
import re
import shutil
import subprocess
import sys
import tempfile


# --------------------------------------------------------------------------
# Worker: runs inside one repo root.
# --------------------------------------------------------------------------
def _arr(a):
    import numpy as np
    a = np.asarray(a)
    return {
        '__array__': True,
        'dtype': str(a.dtype),
        'shape': list(a.shape),
        'c_contig': bool(a.flags['C_CONTIGUOUS']),
        'f_contig': bool(a.flags['F_CONTIGUOUS']),
        'hex': np.ascontiguousarray(a).tobytes().hex(),
    }


def _listing(d):
    out = []
    for root, _, files in sorted(os.walk(d)):
        for fn in sorted(files):
            p = os.path.join(root, fn)
            with open(p, 'rb') as f:
                out.append([os.path.relpath(p, d),
                            hashlib.md5(f.read()).hexdigest()])
    return out


def _sanitise(txt):
    # Timings are not reproducible.
    return re.sub(r'took [-+0-9.e]+s', 'took <T>s', txt)


class _Capture:
    def __init__(self):
        self.buf = io.StringIO()

    def __enter__(self):
        self.old = sys.stdout
        sys.stdout = self.buf
        return self

    def __exit__(self, *a):
        sys.stdout = self.old

    def text(self):
        return _sanitise(self.buf.getvalue())


def worker(root, out_fn):
    import multiprocessing as mp
    import random

    sys.path.insert(0, root)
    workdir = tempfile.mkdtemp(prefix='c17_equiv_')
    os.chdir(workdir)  # cache dirs are given relative, so prints coincide.
    try:
        mp.set_start_method('fork')
    except RuntimeError:
        pass

    import numpy as np
    from src.error_estimator import ErrorEstimator
    from src.initial_mesh import (LShapeBoundaryRefined,
                                  UnitSquareBoundaryRefined)
    from src.initial_potential import InitialOperator
    from src.mesh import MeshParametrized
    from src.parametrization import Circle, LShape, UnitSquare
    from src.single_layer import SingleLayerOperator
    import src.single_layer as sl_mod
    import src.initial_potential as ip_mod
    assert os.path.realpath(sl_mod.__file__).startswith(
        os.path.realpath(root)), sl_mod.__file__
    assert os.path.realpath(ip_mod.__file__).startswith(os.path.realpath(root))

    res = {}

    def rnd_mesh(gamma, seed, n):
        mesh = MeshParametrized(gamma)
        random.seed(seed)
        for _ in range(n):
            elem = random.choice(list(mesh.leaf_elements))
            mesh.refine_axis(elem, random.random() < 0.5)
        return mesh

    def uni_mesh(gamma, n):
        mesh = MeshParametrized(gamma)
        for _ in range(n):
            mesh.uniform_refine()
        return mesh

    # ------------------------------------------------------------------
    # Single layer matrix.
    # ------------------------------------------------------------------
    sl_cases = [
        ('sq_uni1', lambda: uni_mesh(UnitSquare(), 1), dict()),
        ('sq_uni1_exact', lambda: uni_mesh(UnitSquare(), 1),
         dict(pw_exact=True)),
        ('sq_rnd', lambda: rnd_mesh(UnitSquare(), 5, 14), dict(quad_order=8)),
        ('circle_rnd', lambda: rnd_mesh(Circle(), 7, 12),
         dict(pw_exact=True, quad_order=8)),
        ('lshape_rnd', lambda: rnd_mesh(LShape(), 11, 10),
         dict(pw_exact=True, quad_order=6)),
    ]
    for name, mk, kw in sl_cases:
        mesh = mk()
        cdir = 'cache_SL_' + name
        os.makedirs(cdir)
        elems = list(mesh.leaf_elements)
        with _Capture() as cap:
            SL0 = SingleLayerOperator(mesh, **kw)  # no cache
            SLc = SingleLayerOperator(mesh, cache_dir=cdir, **kw)

            # Reference: every pair on its own.
            ref = np.array([[SL0.bilform(tr, te) for tr in elems]
                            for te in elems], dtype=float)
            res[name + '/ref'] = _arr(ref)

            # Default arguments, serial, no cache.
            res[name + '/default'] = _arr(SL0.bilform_matrix())
            res[name + '/serial'] = _arr(SL0.bilform_matrix(elems, elems))
            # Pool, no cache.
            res[name + '/pool'] = _arr(
                SL0.bilform_matrix(elems, elems, use_mp=True))

            # Inline path for small sizes (with a cache dir: nothing stored).
            for (a, b) in [(0, 0), (0, 3), (1, 1), (5, 7), (9, 11), (3, 33)]:
                te, tr = elems[:a], elems[2:2 + b]
                m = SLc.bilform_matrix(te, tr)
                res['{}/inline_{}x{}'.format(name, a, b)] = _arr(m)
                m = SLc.bilform_matrix(te, tr, use_mp=True)
                res['{}/inline_mp_{}x{}'.format(name, a, b)] = _arr(m)
            res[name + '/files_after_inline'] = _listing(cdir)

            # Rectangular: rows = test, columns = trial.
            te, tr = elems[:len(elems) // 2], elems[1:]
            res[name + '/rect_serial'] = _arr(SL0.bilform_matrix(te, tr))
            res[name + '/rect_pool'] = _arr(
                SL0.bilform_matrix(te, tr, use_mp=True))
            res[name + '/rect_only_test'] = _arr(SL0.bilform_matrix(tr[:11]))

            # Cache miss then hit, serial and pool, square and rectangular.
            res[name + '/cache_miss_serial'] = _arr(
                SLc.bilform_matrix(elems, elems))
            res[name + '/files_1'] = _listing(cdir)
            res[name + '/cache_hit'] = _arr(
                SLc.bilform_matrix(elems, elems, use_mp=True))
            res[name + '/cache_hit_default'] = _arr(SLc.bilform_matrix())
            res[name + '/cache_miss_rect_pool'] = _arr(
                SLc.bilform_matrix(te, tr, use_mp=True))
            res[name + '/cache_miss_rect_T'] = _arr(SLc.bilform_matrix(tr, te))
            res[name + '/files_2'] = _listing(cdir)
            res[name + '/cache_hit_rect'] = _arr(SLc.bilform_matrix(te, tr))

            # Damage the cache files: truncated, garbage, empty, directory.
            files = sorted(os.listdir(cdir))
            assert len(files) >= 3, files
            p0, p1, p2 = [os.path.join(cdir, f) for f in files[:3]]
            with open(p0, 'rb') as f:
                data = f.read()
            with open(p0, 'wb') as f:
                f.write(data[:len(data) // 2])
            with open(p1, 'wb') as f:
                f.write(b'this is not a numpy file')
            with open(p2, 'wb') as f:
                pass
            res[name + '/damaged_sq'] = _arr(
                SLc.bilform_matrix(elems, elems, use_mp=True))
            res[name + '/damaged_rect'] = _arr(SLc.bilform_matrix(te, tr))
            res[name + '/damaged_rect_T'] = _arr(
                SLc.bilform_matrix(tr, te, use_mp=True))
            res[name + '/files_3'] = _listing(cdir)
            res[name + '/rehit_sq'] = _arr(SLc.bilform_matrix(elems, elems))

            # Unusable cache dir: results still fine, nothing stored.
            SLbad = SingleLayerOperator(mesh,
                                        cache_dir='does/not/exist_' + name,
                                        **kw)
            res[name + '/bad_dir'] = _arr(
                SLbad.bilform_matrix(elems, elems, use_mp=True))
            res[name + '/bad_dir_exists'] = os.path.exists('does')

            # Other operators on the same mesh object.
            res[name + '/potential_vector'] = _arr(
                SL0.potential_vector(1.3, np.array([[0.3], [0.4]])))
            res[name + '/evaluate_vector'] = _arr(
                SL0.evaluate_vector(0.77, 0.3))
            res[name + '/rhs_vector'] = _arr(
                SL0.rhs_vector(lambda t, x: t * x[0] + x[1], gauss_order=5))
        res[name + '/stdout'] = cap.text()

    # A second curve in a shared cache dir: no shared entries.
    with _Capture() as cap:
        os.makedirs('cache_shared')
        for gamma in (UnitSquare(), LShape(), Circle()):
            mesh = uni_mesh(gamma, 1)
            elems = list(mesh.leaf_elements)[:12]
            SL = SingleLayerOperator(mesh, quad_order=4,
                                     cache_dir='cache_shared')
            res['shared/{}/a'.format(gamma)] = _arr(
                SL.bilform_matrix(elems, elems))
            res['shared/{}/b'.format(gamma)] = _arr(
                SL.bilform_matrix(elems[::-1], elems))
            res['shared/{}/c'.format(gamma)] = _arr(
                SL.bilform_matrix(elems, elems[::-1], use_mp=True))
        res['shared/files'] = _listing('cache_shared')
    res['shared/stdout'] = cap.text()

    # ------------------------------------------------------------------
    # Initial potential vector.
    # ------------------------------------------------------------------
    m0_cases = [
        ('m0_sq_uni1', lambda: uni_mesh(UnitSquare(), 1),
         UnitSquareBoundaryRefined, lambda y: np.sin(y[0]) * y[1],
         dict()),
        ('m0_sq_rnd', lambda: rnd_mesh(UnitSquare(), 3, 8),
         UnitSquareBoundaryRefined, lambda y: np.ones(y.shape[1]),
         dict(quad_int=6, problem='myproblem')),
        ('m0_lshape', lambda: uni_mesh(LShape(), 1), LShapeBoundaryRefined,
         lambda y: y[0]**2 + y[1], dict(quad_int=5)),
    ]
    for name, mk, init_mesh, u0, kw in m0_cases:
        mesh = mk()
        cdir = 'cache_M0_' + name
        os.makedirs(cdir)
        elems = list(mesh.leaf_elements)
        with _Capture() as cap:
            M0 = InitialOperator(mesh, u0, initial_mesh=init_mesh, **kw)
            M0c = InitialOperator(mesh, u0, initial_mesh=init_mesh,
                                  cache_dir=cdir, **kw)
            res[name + '/ref'] = _arr(
                np.array([M0.linform(e)[0] for e in elems], dtype=float))
            res[name + '/ips0'] = _arr(
                np.array(sorted(v for _, v in M0.linform(elems[0])[1])))
            res[name + '/default'] = _arr(M0.linform_vector())
            res[name + '/pool'] = _arr(M0.linform_vector(elems, use_mp=True))
            res[name + '/empty'] = _arr(M0.linform_vector([]))
            res[name + '/empty_pool'] = _arr(
                M0.linform_vector([], use_mp=True))
            res[name + '/sub'] = _arr(M0.linform_vector(elems[1:4]))
            res[name + '/sub_pool'] = _arr(
                M0.linform_vector(elems[1:4], use_mp=True))

            res[name + '/miss'] = _arr(M0c.linform_vector())
            res[name + '/hit'] = _arr(M0c.linform_vector(use_mp=True))
            res[name + '/miss_sub_pool'] = _arr(
                M0c.linform_vector(elems[::2], use_mp=True))
            res[name + '/miss_sub_rev'] = _arr(
                M0c.linform_vector(elems[::-2]))
            res[name + '/files_1'] = _listing(cdir)
            files = sorted(os.listdir(cdir))
            assert len(files) == 3, files
            p0, p1, p2 = [os.path.join(cdir, f) for f in files]
            with open(p0, 'rb') as f:
                data = f.read()
            with open(p0, 'wb') as f:
                f.write(data[:len(data) - 9])
            with open(p1, 'wb') as f:
                f.write(b'\x93NUMPY garbage')
            with open(p2, 'wb') as f:
                pass
            res[name + '/damaged_a'] = _arr(M0c.linform_vector(use_mp=True))
            res[name + '/damaged_b'] = _arr(M0c.linform_vector(elems[::2]))
            res[name + '/damaged_c'] = _arr(
                M0c.linform_vector(elems[::-2], use_mp=True))
            res[name + '/files_2'] = _listing(cdir)
            res[name + '/rehit'] = _arr(M0c.linform_vector(elems))

            M0bad = InitialOperator(mesh, u0, initial_mesh=init_mesh,
                                    cache_dir='nonexistent/' + name, **kw)
            res[name + '/bad_dir'] = _arr(M0bad.linform_vector(elems[:3]))
            res[name + '/evaluate'] = _arr(M0.evaluate(0.3, [[0.4], [0.2]]))
            for idx in (0, len(elems) // 2, len(elems) - 1):
                e = elems[idx]
                c, d = e.space_interval
                im = init_mesh(e.gamma_space(c), e.gamma_space(d))
                res['{}/evaluate_mesh_{}'.format(name, idx)] = _arr(
                    M0.evaluate_mesh(0.3, np.array([[0.4], [0.2]]), im))
        res[name + '/stdout'] = cap.text()

    # ------------------------------------------------------------------
    # Error estimator (shares the cache / pool idiom).
    # ------------------------------------------------------------------
    with _Capture() as cap:
        mesh = rnd_mesh(UnitSquare(), 5, 25)
        elems = list(mesh.leaf_elements)
        os.makedirs('cache_EE')

        def residual(t, x_hat, gamma):
            x = gamma(x_hat)
            return t * np.cos(np.pi * x[0]) * np.sin(np.pi * x[1])

        for tag, kw in [('nocache', dict()),
                        ('cache', dict(cache_dir='cache_EE')),
                        ('cache_p', dict(cache_dir='cache_EE', problem='pp',
                                         N_poly=(3, 5, 3, 5)))]:
            EE = ErrorEstimator(mesh, **({'N_poly': 3, **kw}))
            for mpflag in (False, True):
                res['ee/{}/l2/{}'.format(tag, mpflag)] = _arr(
                    EE.estimate_weighted_l2(elems, residual, use_mp=mpflag))
                res['ee/{}/sob/{}'.format(tag, mpflag)] = _arr(
                    EE.estimate_sobolev(elems, residual, use_mp=mpflag))
        res['ee/files'] = _listing('cache_EE')

        # Residual built from the single layer (uses SL._init_elems).
        mesh = uni_mesh(UnitSquare(), 1)
        elems = list(mesh.leaf_elements)
        SL = SingleLayerOperator(mesh, quad_order=6)
        EE = ErrorEstimator(mesh, N_poly=3)
        Phi = np.linspace(0.5, 1.5, len(elems))
        for exact in (False, True):
            r = EE.residual(elems, Phi, SL, SL_exact_eval=exact)
            res['ee/residual_l2/{}'.format(exact)] = _arr(
                EE.estimate_weighted_l2(elems, r, use_mp=exact))
    res['ee/stdout'] = cap.text()

    with open(out_fn, 'w') as f:
        json.dump(res, f)
    os.chdir(os.path.dirname(os.path.abspath(out_fn)))
    shutil.rmtree(workdir, ignore_errors=True)


# --------------------------------------------------------------------------
# Parent: compare.
# --------------------------------------------------------------------------
def compare(ra, rb):
    import numpy as np
    ok = True
    if sorted(ra) != sorted(rb):
        print('KEY MISMATCH', sorted(set(ra) ^ set(rb)))
        return False
    n_bitwise = 0
    for k in sorted(ra):
        a, b = ra[k], rb[k]
        if isinstance(a, dict) and a.get('__array__'):
            meta = ('dtype', 'shape', 'c_contig', 'f_contig')
            if any(a[m] != b[m] for m in meta):
                print('META MISMATCH', k, [(a[m], b[m]) for m in meta])
                ok = False
                continue
            if a['hex'] == b['hex']:
                n_bitwise += 1
                continue
            xa = np.frombuffer(bytes.fromhex(a['hex']), dtype=a['dtype'])
            xb = np.frombuffer(bytes.fromhex(b['hex']), dtype=b['dtype'])
            scale = max(np.max(np.abs(xa)), np.max(np.abs(xb)), 1e-300)
            err = np.max(np.abs(xa - xb)) / scale
            if not (err <= 1e-13):
                print('VALUE MISMATCH', k, 'rel err', err)
                ok = False
            else:
                print('note: {} agrees only to {:.2e}'.format(k, err))
        else:
            if a != b:
                # File listings of caches contain md5 of array bytes; if the
                # arrays differ at rounding level that is reported here too.
                print('MISMATCH', k)
                print('  A:', str(a)[:2000])
                print('  B:', str(b)[:2000])
                ok = False
    print('{} entries compared, {} arrays bitwise identical'.format(
        len(ra), n_bitwise))
    return ok


def main():
    if len(sys.argv) == 4 and sys.argv[1] == '--worker':
        worker(sys.argv[2], sys.argv[3])
        return 0
    if len(sys.argv) != 3:
        print(__doc__)
        return 2
    roots = [os.path.abspath(p) for p in sys.argv[1:3]]
    tmp = tempfile.mkdtemp(prefix='c17_equiv_out_')
    outs = [os.path.join(tmp, 'A.json'), os.path.join(tmp, 'B.json')]
    env = dict(os.environ)
    env.pop('PYTHONPATH', None)
    env['PYTHONDONTWRITEBYTECODE'] = '1'
    env['PYTHONHASHSEED'] = '0'
    procs = [
        subprocess.Popen(
            [sys.executable, os.path.abspath(__file__), '--worker', r, o],
            env=env, cwd=tmp) for r, o in zip(roots, outs)
    ]
    codes = [p.wait() for p in procs]
    if any(codes):
        print('worker failed', codes)
        return 1
    with open(outs[0]) as f:
        ra = json.load(f)
    with open(outs[1]) as f:
        rb = json.load(f)
    ok = compare(ra, rb)
    shutil.rmtree(tmp, ignore_errors=True)
    print('EQUIVALENT' if ok else 'DIFFERENT')
    return 0 if ok else 1


if __name__ == '__main__':
    sys.exit(main())
