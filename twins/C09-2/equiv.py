#!/usr/bin/env python
"""Equivalence check for property C09 (Sobolev / weighted-L2 indicators).

Usage:  python equiv.py <repo_root_A> <repo_root_B>

Each root is exercised in its own subprocess (so the two copies of the
package `src` never meet in one interpreter).  The worker evaluates

  * Slobodeckij.seminorm_h_1_4 / seminorm_h_1_2 / seminorm_h_1_2_pw directly,
  * ErrorEstimator.sobolev_space / sobolev_time (with and without the
    neighbour-symmetry shortcut) and weighted_l2 on every element,
  * estimate_sobolev / estimate_weighted_l2 serially and through the
    process pool, and once more through the on-disk cache,

on several curves (unit square, pi-square, L-shape, a skew triangle, the
circle), several meshes (uniform, random anisotropic), several residuals and
several quadrature orders.  Everything printed by the library is recorded as
well.  The two records must agree: floats bitwise, and if a float is not
bitwise equal it must agree to 1e-13 relative (reported, still accepted).
Exit status 0 iff the records agree.
"""
import json
import os
import subprocess
import sys
import tempfile

RTOL = 1e-13


# --------------------------------------------------------------------------
# Worker: runs inside one repo root.
# --------------------------------------------------------------------------
def worker(root, out_fn):
    import contextlib
    import io
    import multiprocessing as mp
    import random
    import shutil

    root = os.path.realpath(root)
    os.chdir(root)
    sys.path.insert(0, root)
    import numpy as np

    import src
    from src.error_estimator import ErrorEstimator
    from src.mesh import MeshParametrized
    from src.norms import Slobodeckij
    from src.parametrization import (Circle, LShape, PiecewisePolygon,
                                     PiSquare, UnitSquare)
    assert os.path.realpath(src.__file__).startswith(root + os.sep), \
        (src.__file__, root)
    import src.error_estimator as ee_mod
    assert os.path.realpath(ee_mod.__file__).startswith(root + os.sep)

    mp.set_start_method('fork')
    record = {}

    def put(key, value):
        assert key not in record, key
        record[key] = encode(value)

    def encode(v):
        if isinstance(v, (tuple, list)):
            return [encode(x) for x in v]
        if isinstance(v, np.ndarray):
            return {'shape': list(v.shape), 'data': encode(v.ravel().tolist())}
        if isinstance(v, (float, np.floating)):
            return {'f': float(v).hex()}
        if isinstance(v, (int, np.integer)):
            return int(v)
        if isinstance(v, str) or v is None:
            return v
        raise TypeError(type(v))

    # ---------------------------------------------------------------- norms
    def f1(x):
        return np.sin(3 * x) + x**2

    def f2(x):
        return np.exp(-x) * np.cos(2 * x)

    def g1(x_hat, gamma):
        x = gamma(x_hat)
        return np.cos(np.pi * x[0]) * np.sin(np.pi * x[1]) + 0.3 * x_hat

    def g2(x_hat, gamma):
        x = gamma(x_hat)
        return x[0] * x[1] + np.sqrt(1 + x_hat)

    square = UnitSquare()
    lshape = LShape()
    circle = Circle()
    for N14, N12 in [(3, None), (5, 7), (1, 3), (9, 1), (11, 11)]:
        slo = Slobodeckij(N14, N12)
        tag = 'norms[{},{}]'.format(N14, N12)
        for fi, f in enumerate((f1, f2)):
            for a, b in [(0., 1.), (0.25, 0.375), (1.5, 4.), (0.3, 0.30001)]:
                put('{}.h14.f{}.{}-{}'.format(tag, fi, a, b),
                    slo.seminorm_h_1_4(f, a, b))
                put('{}.h12.f{}.{}-{}'.format(tag, fi, a, b),
                    slo.seminorm_h_1_2(f, a, b))
        for gi, g in enumerate((g1, g2)):
            for ci, curve in enumerate((square, lshape)):
                pw = curve.pw_gamma
                st = curve.pw_start
                for p in range(len(pw)):
                    a, b = st[p], st[p + 1]
                    m = a + 0.25 * (b - a)
                    put('{}.h12g.g{}.c{}.p{}'.format(tag, gi, ci, p), [
                        slo.seminorm_h_1_2(g, a, b, pw[p]),
                        slo.seminorm_h_1_2(g, a, m, pw[p]),
                        slo.seminorm_h_1_2(g, m, b, gamma=pw[p]),
                    ])
                    if p + 1 < len(pw):
                        a2, b2 = st[p + 1], st[p + 2]
                        m2 = a2 + 0.125 * (b2 - a2)
                        put('{}.h12pw.g{}.c{}.p{}'.format(tag, gi, ci, p), [
                            slo.seminorm_h_1_2_pw(g, a, b, pw[p], a2, b2,
                                                  pw[p + 1]),
                            slo.seminorm_h_1_2_pw(g, m, b, pw[p], a2, m2,
                                                  pw[p + 1]),
                        ])
            # closing seam of the polygon: last piece next to first piece
            for ci, curve in enumerate((square, lshape)):
                pw = curve.pw_gamma
                st = curve.pw_start
                put('{}.h12pw.seam.g{}.c{}'.format(tag, gi, ci),
                    slo.seminorm_h_1_2_pw(g, st[-2] + 0.5, st[-1], pw[-1],
                                          st[0], st[1] - 0.25, pw[0]))
            put('{}.h12g.circle.g{}'.format(tag, gi), [
                slo.seminorm_h_1_2(g, 0.5, 2.5, circle.pw_gamma[0]),
                slo.seminorm_h_1_2(g, 0., 2 * np.pi, circle.pw_gamma[0]),
            ])

    # ----------------------------------------------------------- estimators
    def res_a(t, x_hat, gamma):
        x = gamma(x_hat)
        return t * np.cos(np.pi * x[0]) * np.sin(np.pi * x[1])

    def res_b(t, x_hat, gamma):
        return np.sqrt(t) * np.sin(x_hat) + 0.1 * x_hat * t

    def res_c(t, x_hat, gamma):
        x = gamma(x_hat)
        return np.sin(np.pi * t) * x[0] * x[1] + np.exp(-t) * (x[0] - 2 * x[1])

    def res_d(t, x_hat, gamma):
        x = gamma(x_hat)
        return np.exp(-((x[0] - 0.3)**2 + (x[1] + 0.2)**2) / (0.5 + t))

    residuals = [('a', res_a), ('b', res_b), ('c', res_c), ('d', res_d)]

    class Triangle(PiecewisePolygon):
        def __init__(self):
            v0 = np.array([0., 0.])
            v1 = np.array([3., 0.])
            v2 = np.array([3., 4.])
            super().__init__(vertices=[v0, v1, v2, v0])

        def __repr__(self):
            return "Triangle"

    def random_mesh(curve, seed, n_refine, **kwargs):
        mesh = MeshParametrized(curve, **kwargs)
        rnd = random.Random(seed)
        for _ in range(n_refine):
            elem = rnd.choice(list(mesh.leaf_elements))
            mesh.refine_axis(elem, rnd.random() < 0.5)
        return mesh

    def uniform_mesh(curve, n, **kwargs):
        mesh = MeshParametrized(curve, **kwargs)
        for _ in range(n):
            mesh.uniform_refine()
        return mesh

    def space_mesh(curve, seed, n_refine):
        """ refined towards the seam, in space mostly. """
        mesh = MeshParametrized(curve)
        rnd = random.Random(seed)
        for _ in range(n_refine):
            leaves = list(mesh.leaf_elements)
            cands = [
                e for e in leaves
                if e.vertices[0].x == 0 or e.vertices[2].x ==
                mesh.gamma_space.gamma_length
            ]
            elem = rnd.choice(cands if rnd.random() < 0.7 else leaves)
            mesh.refine_axis(elem, rnd.random() < 0.75)
        return mesh

    # (name, mesh, N_poly, residual names, use the pool?)
    cases = [
        ('square.unif1', uniform_mesh(UnitSquare(), 1), 5, 'abcd', True),
        ('square.unif2', uniform_mesh(UnitSquare(), 2), (3, 1, 5, 7), 'ac',
         False),
        ('square.rnd5', random_mesh(UnitSquare(), 5, 60), 5, 'ab', True),
        ('square.rnd11', random_mesh(UnitSquare(), 11, 35), (7, 3, 5, 9), 'cd',
         False),
        ('square.seam', space_mesh(UnitSquare(), 3, 40), 3, 'bd', True),
        ('pisquare.rnd2', random_mesh(PiSquare(), 2, 30), 7, 'bc', False),
        ('lshape.unif1', uniform_mesh(LShape(), 1), 3, 'ad', False),
        ('lshape.rnd7', random_mesh(LShape(), 7, 40), (5, 5, 3, 7), 'bc', True),
        ('triangle.rnd1', random_mesh(Triangle(), 1, 30), 5, 'cd', True),
        ('triangle.seam', space_mesh(Triangle(), 9, 25), (1, 7, 7, 3), 'ab',
         False),
        ('circle.unif0', uniform_mesh(Circle(), 0), 5, 'ad', False),
        ('circle.rnd4', random_mesh(Circle(), 4, 30), (5, 3, 7, 5), 'bc', True),
        ('square.T2',
         random_mesh(UnitSquare(), 8, 25, initial_time_mesh=[0, 0.5, 2.]), 5,
         'ac', False),
    ]

    cache_root = tempfile.mkdtemp(prefix='c09cache')
    try:
        for name, mesh, N_poly, res_names, use_pool in cases:
            elems = list(mesh.leaf_elements)
            out = io.StringIO()
            with contextlib.redirect_stdout(out):
                est = ErrorEstimator(mesh, N_poly=N_poly)
            put(name + '.init_stdout', out.getvalue())
            put(name + '.N', len(elems))
            put(name + '.problem', est.problem)
            for rn, res in residuals:
                if rn not in res_names: continue
                key = '{}.res_{}'.format(name, rn)
                for sym in (False, True):
                    sp = [
                        est.sobolev_space(e, res, nbrs_symmetry=sym)
                        for e in elems
                    ]
                    ti = [
                        est.sobolev_time(e, res, nbrs_symmetry=sym)
                        for e in elems
                    ]
                    put('{}.sobolev_space.sym{}'.format(key, int(sym)), sp)
                    put('{}.sobolev_time.sym{}'.format(key, int(sym)), ti)
                # default value of the flag
                put(key + '.sobolev_space.default',
                    [est.sobolev_space(e, res) for e in elems[:3]])
                put(key + '.sobolev_time.default',
                    [est.sobolev_time(e, res) for e in elems[:3]])
                put(key + '.weighted_l2',
                    [est.weighted_l2(e, res) for e in elems])

                out = io.StringIO()
                with contextlib.redirect_stdout(out):
                    put(key + '.estimate_sobolev.serial',
                        est.estimate_sobolev(elems, res))
                    put(key + '.estimate_l2.serial',
                        est.estimate_weighted_l2(elems, res))
                    # a subset / permutation of the elements
                    sub = elems[::-1]
                    put(key + '.estimate_sobolev.reversed',
                        est.estimate_sobolev(sub, res, use_mp=False))
                    put(key + '.estimate_l2.reversed',
                        est.estimate_weighted_l2(sub, res, use_mp=False))
                    if use_pool:
                        put(key + '.estimate_sobolev.pool',
                            est.estimate_sobolev(elems, res, use_mp=True))
                        put(key + '.estimate_l2.pool',
                            est.estimate_weighted_l2(elems, res, use_mp=True))
                put(key + '.estimate_stdout', out.getvalue())

            # The on-disk cache: first call stores, second call loads.
            cdir = os.path.join(cache_root, name)
            os.makedirs(cdir)
            rn, res = [(rn, res) for rn, res in residuals
                       if rn in res_names][0]
            out = io.StringIO()
            with contextlib.redirect_stdout(out):
                estc = ErrorEstimator(mesh,
                                      N_poly=N_poly,
                                      cache_dir=cdir,
                                      problem='prob-' + name)
                first = (estc.estimate_sobolev(elems, res),
                         estc.estimate_weighted_l2(elems, res))
                second = (estc.estimate_sobolev(elems, res),
                          estc.estimate_weighted_l2(elems, res))
            put(name + '.cache.first', first)
            put(name + '.cache.second', second)
            put(name + '.cache.files', sorted(os.listdir(cdir)))
            put(name + '.cache.stdout', out.getvalue().replace(cdir, '<CACHE>'))
    finally:
        shutil.rmtree(cache_root, ignore_errors=True)

    with open(out_fn, 'w') as f:
        json.dump(record, f)


# --------------------------------------------------------------------------
# Driver: compares the two records.
# --------------------------------------------------------------------------
class Mismatch(Exception):
    pass


def compare(a, b, path, loose):
    if isinstance(a, dict) and set(a) == {'f'}:
        if not (isinstance(b, dict) and set(b) == {'f'}):
            raise Mismatch('{}: float vs {!r}'.format(path, b))
        if a['f'] == b['f']: return
        x, y = float.fromhex(a['f']), float.fromhex(b['f'])
        if x != x and y != y: return
        if abs(x - y) <= RTOL * max(abs(x), abs(y)):
            loose.append((path, x, y))
            return
        raise Mismatch('{}: {!r} != {!r}'.format(path, x, y))
    if type(a) != type(b):
        raise Mismatch('{}: type {} vs {}'.format(path, type(a), type(b)))
    if isinstance(a, dict):
        if set(a) != set(b):
            raise Mismatch('{}: keys differ: {}'.format(
                path, sorted(set(a) ^ set(b))[:10]))
        for k in a:
            compare(a[k], b[k], path + '/' + k, loose)
    elif isinstance(a, list):
        if len(a) != len(b):
            raise Mismatch('{}: length {} vs {}'.format(path, len(a), len(b)))
        for i, (x, y) in enumerate(zip(a, b)):
            compare(x, y, '{}[{}]'.format(path, i), loose)
    elif a != b:
        raise Mismatch('{}: {!r} != {!r}'.format(path, a, b))


def main(root_a, root_b):
    records = []
    with tempfile.TemporaryDirectory(prefix='c09equiv') as tmp:
        procs = []
        for i, root in enumerate((root_a, root_b)):
            out_fn = os.path.join(tmp, 'rec{}.json'.format(i))
            env = dict(os.environ)
            env.pop('PYTHONPATH', None)
            env['PYTHONDONTWRITEBYTECODE'] = '1'
            env['OMP_NUM_THREADS'] = '1'
            procs.append((root, out_fn,
                          subprocess.Popen([
                              sys.executable,
                              os.path.abspath(__file__), '--worker', root,
                              out_fn
                          ],
                                           env=env,
                                           cwd=tmp)))
        for root, out_fn, proc in procs:
            if proc.wait() != 0:
                print('worker failed for', root)
                return 1
            with open(out_fn) as f:
                records.append(json.load(f))
    loose = []
    try:
        compare(records[0], records[1], '', loose)
    except Mismatch as e:
        print('MISMATCH', e)
        return 1
    n_float = sum(json.dumps(r).count('"f"') for r in records[:1])
    print('OK: {} keys, {} floats compared, {} not bitwise (<= {} rel)'.format(
        len(records[0]), n_float, len(loose), RTOL))
    for path, x, y in loose[:10]:
        print('   loose', path, repr(x), repr(y))
    return 0


if __name__ == '__main__':
    if len(sys.argv) == 4 and sys.argv[1] == '--worker':
        worker(sys.argv[2], sys.argv[3])
        sys.exit(0)
    if len(sys.argv) != 3:
        print(__doc__)
        sys.exit(2)
    sys.exit(main(os.path.abspath(sys.argv[1]), os.path.abspath(sys.argv[2])))
