#!/usr/bin/env python
"""Equivalence check for a behaviour-preserving refactoring (property C01).

Usage:  python equiv.py <repo_root_A> <repo_root_B>

Each root is imported in its own subprocess (``--worker <root>``), which
evaluates the single-layer machinery on a fixed, deterministic set of inputs
and prints a JSON document in which every float is stored as ``float.hex``.
The parent compares the two documents key by key.  Exit status 0 iff every
value agrees bitwise, or -- failing that -- to 1e-13 relative.
"""
import json
import math
import os
import random
import subprocess
import sys

REL_TOL = 1e-13


# --------------------------------------------------------------------------
# worker
# --------------------------------------------------------------------------
def _hex(v):
    return float(v).hex()


def _try(fn, *args):
    """ Value of fn(*args) as hex, or the name of the exception raised. """
    try:
        return _hex(fn(*args))
    except Exception as exc:  # both trees must fail identically
        return type(exc).__name__


def _refined_mesh(mesh_mod, gamma, seed, n_refine, uniform=0, **kw):
    mesh = mesh_mod.MeshParametrized(gamma, **kw)
    for _ in range(uniform):
        mesh.uniform_refine()
    rng = random.Random(seed)
    for _ in range(n_refine):
        elem = rng.choice(list(mesh.leaf_elements))
        mesh.refine_axis(elem, int(rng.random() < 0.5))
    return mesh


def worker(root):
    import numpy as np
    sys.path.insert(0, root)
    from src import mesh as mesh_mod
    from src import parametrization as par
    from src import quadrature as quad
    from src import single_layer as sl
    from src import single_layer_exact as sle

    assert os.path.realpath(sl.__file__).startswith(os.path.realpath(root))
    out = {}

    # ---- 1. analytic double time integration -----------------------------
    rng = np.random.RandomState(1)
    pts = rng.uniform(-2, 2, size=(2, 40))
    pts[:, 0] = [1e-9, 0.0]
    pts[:, 1] = [3.0, -4.0]
    time_cases = [(0, 1, 0, 1), (1.5, 3, 1.5, 3), (1.5, 3, 2, 5),
                  (1.5, 3, 3, 5), (1.5, 3, 4, 5), (1.5, 3, 1, 5),
                  (1.5, 3, 1, 1.5), (1.5, 3, 1, 2), (1.5, 3, 0, 0.5),
                  (0.25, 0.5, 0., 0.125), (0.5, 0.75, 0.5, 0.625),
                  (0.5, 0.625, 0.5, 0.75), (0., 0.125, 0.25, 0.5),
                  (2., 2.0000001, 1., 2.), (0.1, 0.7, 0.3, 0.4)]
    for tc in time_cases:
        G = sl.double_time_integrated_kernel(*[float(v) for v in tc])
        val = G(pts)
        val = np.broadcast_to(np.asarray(val, dtype=float), (pts.shape[1], ))
        out['dtik/%r' % (tc, )] = [_hex(v) for v in val]
        single = G(np.array([[0.3], [-0.2]]))
        out['dtik1/%r' % (tc, )] = [
            _hex(np.ravel(np.asarray(single, dtype=float))[0]),
            str(np.shape(single))
        ]

    # ---- 2. closed forms on a straight side -------------------------------
    space_cases = [
        (0., 1., 0., 1.),  # identical
        (0., .5, .5, 1.),  # touching
        (.5, 1., 0., .5),  # touching, swapped
        (0., .25, .25, 1.),  # touching, uneven
        (0., 1., 0., .5),  # nested, shared left end
        (0., .5, 0., 1.),
        (0., 1., .5, 1.),  # nested, shared right end
        (.5, 1., 0., 1.),
        (0., 1., .25, .5),  # strictly nested
        (.25, .5, 0., 1.),
        (0., .25, .5, 1.),  # disjoint
        (.75, 1., 0., .125),
        (0., .75, .5, 1.),  # overlapping
        (.5, 1., 0., .75),
        (1., 1.5, 1.25, 3.),
        (math.pi / 4, math.pi / 2, 0., math.pi),
    ]
    for tc in time_cases:
        tc = [float(v) for v in tc]
        for sc in space_cases:
            key = 'stik/%r/%r' % (tuple(tc), sc)
            out[key] = [_hex(sle.spacetime_integrated_kernel(*tc, *sc))]
    for tc in time_cases[:9]:
        tc = [float(v) for v in tc]
        out['stik_1/%r' % (tc, )] = [
            _hex(sle.spacetime_integrated_kernel_1(*tc, 0.375))
        ]
        out['stik_2/%r' % (tc, )] = [
            _hex(sle.spacetime_integrated_kernel_2(*tc, 0.375, 0.5))
        ]
        out['stik_3/%r' % (tc, )] = [
            _hex(sle.spacetime_integrated_kernel_3(*tc, 0.375, 0.5)),
            _hex(sle.spacetime_integrated_kernel_3(*tc, 0.5, 0.375)),
        ]
        out['stik_4/%r' % (tc, )] = [
            _hex(sle.spacetime_integrated_kernel_4(*tc, 0.25, 0.375, 0.5))
        ]
    for z in [(1., 0.), (1., 0.75), (0.5, 0.5), (0.25, 0.5), (3., 2.9)]:
        out['fint/%r' % (z, )] = [
            _hex(sle.fint_1(*z, 0.3)),
            _hex(sle.fint_2(*z, 0.3, 0.7)),
            _hex(sle.fint_3(*z, 0.3, 0.7)),
            _hex(sle.fint_3(*z, 0.7, 0.3)),
            _hex(sle.fint_4(*z, 0.3, 0.7, 1.1)),
        ]

    # ---- 3. quadrature schemes -------------------------------------------
    def fsmooth(x):
        return np.exp(-x[0]) * np.cos(x[1]) + x[0] * x[1]

    def fsing(x):
        return np.log(np.abs(x[0] - x[1]) + 1e-300) * (1 + x[0])

    for order in (5, 12):
        log1 = quad.log_quadrature_scheme(order, order)
        loglog = quad.ProductScheme2D(log1, log1)
        duffy = quad.DuffyScheme2D(loglog, symmetric=False)
        duffy_s = quad.DuffyScheme2D(loglog, symmetric=True)
        gauss = quad.ProductScheme2D(quad.gauss_quadrature_scheme(2 * order +
                                                                  1))
        schemes = {
            'loglog': loglog,
            'loglog_mx': loglog.mirror_x(),
            'loglog_my': loglog.mirror_y(),
            'duffy': duffy,
            'duffy_mx': duffy.mirror_x(),
            'duffy_my': duffy.mirror_y(),
            'duffy_mxy': duffy.mirror_x().mirror_y(),
            'duffy_s': duffy_s,
            'gauss': gauss,
        }
        for name, scheme in schemes.items():
            key = 'quad/%d/%s' % (order, name)
            out[key + '/pts'] = [_hex(v) for v in scheme.points.ravel()]
            out[key + '/wts'] = [_hex(v) for v in scheme.weights.ravel()]
            out[key + '/int'] = [
                _hex(scheme.integrate(fsmooth, 0., 1., 0., 1.)),
                _hex(scheme.integrate(fsmooth, .25, .75, 1., 3.)),
                _hex(scheme.integrate(fsing, 0., 1., 0., 1.)),
                _hex(scheme.integrate(fsing, 0.5, 1., 1., 1.5)),
            ]
        out['quad1d/%d' % order] = [
            _hex(log1.integrate(np.log, 0., 1.)),
            _hex(log1.mirror().integrate(np.cos, 1., 3.)),
            _hex(log1.integrate(np.cos, 2., 2.)),
        ]

    # ---- 4. Galerkin entries on a range of meshes -------------------------
    tri = par.PiecewisePolygon(vertices=[
        np.array([0., 0.]),
        np.array([3., 0.]),
        np.array([3., 4.]),
        np.array([0., 0.])
    ])
    configs = [
        ('square/unif', par.UnitSquare(), dict(seed=0, n_refine=0, uniform=1),
         (False, True), 12),
        ('square/rand', par.UnitSquare(), dict(seed=5, n_refine=50),
         (False, True), 12),
        ('square/rand7', par.UnitSquare(), dict(seed=11, n_refine=25),
         (False, ), 7),
        ('circle/unif', par.Circle(), dict(seed=0, n_refine=0, uniform=1),
         (False, True), 12),
        ('circle/rand', par.Circle(), dict(seed=3, n_refine=30), (False, ),
         12),
        ('lshape/rand', par.LShape(), dict(seed=7, n_refine=30), (False, True),
         12),
        ('pisquare/rand', par.PiSquare(), dict(seed=9, n_refine=20),
         (False, True), 12),
        ('triangle/rand', tri, dict(seed=13, n_refine=20), (False, True), 12),
        ('interval/rand', par.UnitInterval(),
         dict(seed=2,
              n_refine=25,
              initial_space_mesh=[0., 1.],
              initial_time_mesh=[0., 0.5, 2.]), (False, True), 12),
    ]
    for name, gamma, mesh_kw, pw_flags, order in configs:
        mesh = _refined_mesh(mesh_mod, gamma, **mesh_kw)
        leaves = list(mesh.leaf_elements)
        # Also non-leaf ancestors, to get nested parent/child panels.
        ancestors = []
        for elem in leaves:
            p = elem.parent
            while p is not None and p.gamma_space is not None:
                whole = (p.space_interval[0] == 0 and p.space_interval[1]
                         == mesh.gamma_space.gamma_length)
                if p not in ancestors and not (whole and mesh.glue_space):
                    ancestors.append(p)
                p = p.parent
        rng = random.Random(42)
        rng.shuffle(ancestors)
        ancestors = ancestors[:12]
        for pw_exact in pw_flags:
            SL = sl.SingleLayerOperator(mesh,
                                        quad_order=order,
                                        pw_exact=pw_exact)
            key = 'bil/%s/pw%d' % (name, pw_exact)
            diag = [SL.bilform(e, e) for e in leaves]
            out[key + '/diag'] = [_hex(v) for v in diag]
            vals = []
            for i, e_test in enumerate(leaves):
                for j, e_trial in enumerate(leaves):
                    vals.append(SL.bilform(e_trial, e_test))
            out[key + '/full'] = [_hex(v) for v in vals]
            vals = []
            for anc in ancestors:
                for e in leaves[::3]:
                    vals.append(_try(SL.bilform, anc, e))
                    vals.append(_try(SL.bilform, e, anc))
                vals.append(_try(SL.bilform, anc, anc))
            out[key + '/anc'] = vals
            if len(leaves) <= 40:
                mat = SL.bilform_matrix()
                out[key + '/mat'] = [_hex(v) for v in mat.ravel()]

    json.dump(out, sys.stdout)


# --------------------------------------------------------------------------
# driver
# --------------------------------------------------------------------------
def run_worker(root):
    env = dict(os.environ)
    env['PYTHONDONTWRITEBYTECODE'] = '1'
    env.pop('PYTHONPATH', None)
    proc = subprocess.run(
        [sys.executable, os.path.abspath(__file__), '--worker', root],
        stdout=subprocess.PIPE,
        stderr=subprocess.PIPE,
        env=env,
        cwd=root)
    if proc.returncode != 0:
        sys.stderr.write(proc.stderr.decode())
        raise SystemExit('worker failed for %s' % root)
    text = proc.stdout.decode()
    # bilform_matrix prints a timing line; the JSON is the last '{'-block.
    return json.loads(text[text.index('{"'):])


def main():
    if len(sys.argv) == 3 and sys.argv[1] == '--worker':
        return worker(os.path.abspath(sys.argv[2]))
    if len(sys.argv) != 3:
        raise SystemExit(__doc__)
    root_a, root_b = (os.path.abspath(p) for p in sys.argv[1:3])
    res_a = run_worker(root_a)
    res_b = run_worker(root_b)

    bad = 0
    n_vals = n_bitwise = 0
    if sorted(res_a) != sorted(res_b):
        print('key sets differ:', sorted(set(res_a) ^ set(res_b))[:10])
        bad += 1
    for key in sorted(set(res_a) & set(res_b)):
        va, vb = res_a[key], res_b[key]
        if len(va) != len(vb):
            print('length mismatch for', key)
            bad += 1
            continue
        for idx, (ha, hb) in enumerate(zip(va, vb)):
            n_vals += 1
            if ha == hb:
                n_bitwise += 1
                continue
            try:
                fa, fb = float.fromhex(ha), float.fromhex(hb)
            except ValueError:
                bad += 1
                print('MISMATCH %s[%d]: %r vs %r' % (key, idx, ha, hb))
                continue
            if math.isnan(fa) and math.isnan(fb):
                continue
            ref = max(abs(fa), abs(fb))
            if not abs(fa - fb) <= REL_TOL * ref:
                bad += 1
                if bad < 20:
                    print('MISMATCH %s[%d]: %r vs %r' % (key, idx, fa, fb))
    print('%d values compared, %d bitwise identical, %d mismatches' %
          (n_vals, n_bitwise, bad))
    sys.exit(0 if bad == 0 else 1)


if __name__ == '__main__':
    main()
