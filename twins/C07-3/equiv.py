"""Equivalence check for a refactoring of the pointwise evaluation of the
single-layer operator (property C07).

Usage:  python equiv.py <repo_root_A> <repo_root_B>

Each root is imported in its own subprocess (so the two copies of the package
`src` never meet in one interpreter).  The worker exercises
SingleLayerOperator._init_elems / evaluate / evaluate_exact / evaluate_vector
and single_layer_exact.spacetime_evaluated_1 on several curves, randomly
refined meshes, times and boundary points, and pickles the raw results.  The
parent compares them bitwise; if a value is not bitwise equal it must agree to
1e-13 relative.  Exit code 0 iff everything agrees.
"""
import math
import os
import pickle
import subprocess
import sys
import tempfile

FOCUS = "extract helper time_integrated_kernel_sqr from the two duplicated kernel blocks of SingleLayerOperator.evaluate"
RTOL = 1e-13


def worker(root, out_fn):
    sys.path.insert(0, root)
    os.chdir(root)
    import random

    import numpy as np

    from src.mesh import MeshParametrized
    from src.parametrization import (Circle, LShape, UnitInterval, UnitSquare)
    from src.single_layer import SingleLayerOperator
    from src.single_layer_exact import spacetime_evaluated_1
    import src.single_layer as sl_mod
    assert os.path.realpath(sl_mod.__file__).startswith(
        os.path.realpath(root)), sl_mod.__file__

    res = []

    def put(label, val):
        if val is None:
            res.append((label, 'none', None))
        elif isinstance(val, np.ndarray):
            res.append((label, 'array',
                        (str(val.dtype), val.shape,
                         np.ascontiguousarray(val).tobytes())))
        else:
            res.append((label, type(val).__name__, float(val)))

    # --- closed form of the collinear evaluation ------------------------
    for t in [0., 0.1, 0.25, 0.5, 0.50000001, 0.75, 1., 1.7, 3.]:
        for (a, b) in [(0., 1.), (0.25, 0.5), (0.5, 0.75), (0., 0.0625),
                       (0.5, 0.5 + 2**-20)]:
            for h in [1e-12, 1e-6, 1e-3, 0.0625, 0.3, 1., 2.5, 7.]:
                put(('st_ev_1', t, a, b, h), spacetime_evaluated_1(t, a, b, h))

    # --- operator on several curves and meshes --------------------------
    times = [0., 0.01, 0.13, 0.25, 0.3, 0.5, 0.75, 0.9, 1.]
    configs = [
        ('square', UnitSquare, 0, 1, 12),
        ('square', UnitSquare, 70, 5, 12),
        ('lshape', LShape, 60, 7, 12),
        ('circle', Circle, 60, 11, 12),
        ('circle', Circle, 25, 3, 7),
        ('interval', UnitInterval, 50, 13, 12),
        ('interval', UnitInterval, 0, 1, 5),
    ]
    for name, Gamma, n_refine, seed, quad_order in configs:
        gamma = Gamma()
        mesh = MeshParametrized(gamma)
        rnd = random.Random(seed)
        for _ in range(n_refine):
            elem = rnd.choice(list(mesh.leaf_elements))
            mesh.refine_axis(elem, rnd.random() < 0.5)

        SL = SingleLayerOperator(mesh, quad_order=quad_order)
        L = SL.gamma_len
        elems = list(mesh.leaf_elements)
        tag = (name, n_refine, seed, quad_order)

        # Pre-evaluated curve points, registered by _init_elems.
        for j, elem in enumerate(elems):
            for attr in sorted(vars(elem)):
                if 'log_scheme' in attr:
                    put(tag + ('attr', j, attr), np.array(getattr(elem, attr)))

        # Re-register on a sub list (as the error estimator does).
        SL._init_elems(elems[::3])

        def wrap(x_hat):
            if mesh.glue_space:
                x_hat = x_hat % L
            return min(max(x_hat, 0.), L)

        for j, elem_trial in enumerate(elems):
            x_a, x_b = elem_trial.space_interval
            h = x_b - x_a
            pts = [
                0., 0.5 * L, L, x_a, x_b, 0.5 * (x_a + x_b),
                x_a + 0.1 * h, x_b - 1e-3 * h, x_a + 1e-9 * h,
                x_a * (1 + 1e-10), x_b * (1 - 1e-10),
                wrap(x_a - 1e-6 * h), wrap(x_b + 1e-6 * h),
                wrap(x_a - 0.01 * h), wrap(x_b + 0.01 * h),
                wrap(x_a - 0.3 * h), wrap(x_b + 0.3 * h),
                wrap(x_a - h), wrap(x_b + h), wrap(x_a + 0.5 * L),
                wrap(0.5 * (x_a + x_b) + 0.5 * L),
                rnd.uniform(0, L), rnd.uniform(0, L)
            ]
            t_a, t_b = elem_trial.time_interval
            elem_times = [
                t_a + 1e-9, t_a + 1e-3 * (t_b - t_a), 0.5 * (t_a + t_b), t_b,
                t_b + 1e-9, t_b + 0.4 * (t_b - t_a), t_b + 1.
            ]
            for t in times + elem_times:
                for x_hat in pts:
                    x = gamma.eval(x_hat)
                    x = np.asarray(x, dtype=float).reshape(2, 1)
                    try:
                        val = SL.evaluate(elem_trial, t, x_hat, x)
                    except AssertionError as e:
                        val = None
                    put(tag + ('evaluate', j, t, x_hat), val)
                    put(tag + ('evaluate_exact', j, t, x_hat),
                        SL.evaluate_exact(elem_trial, t, x_hat))
            put(tag + ('evaluate_exact_nan', j),
                SL.evaluate_exact(elem_trial, 0.8, float('nan')))

        for t in times + [-0.5, 2.]:
            for x_hat in [0., 0.123 * L, 0.25 * L, 0.5 * L, 0.77 * L, L]:
                put(tag + ('evaluate_vector', t, x_hat),
                    SL.evaluate_vector(t, x_hat))

        # The integral of the evaluation over a test element (Galerkin entry).
        gauss = SL.gauss_scheme
        for j in range(0, len(elems), max(1, len(elems) // 6)):
            elem_trial = elems[j]
            for i in range(0, len(elems), max(1, len(elems) // 4)):
                elem_test = elems[i]
                a, b = elem_test.space_interval
                c, d = elem_test.time_interval
                tot = 0.
                for tq, wt in zip(c + (d - c) * gauss.points[::4],
                                  gauss.weights[::4]):
                    for xq, wx in zip(a + (b - a) * gauss.points[::4],
                                      gauss.weights[::4]):
                        xx = elem_test.gamma_space(xq).reshape(2, 1)
                        tot += wt * wx * SL.evaluate(elem_trial, float(tq),
                                                     float(xq), xx)
                put(tag + ('evaluate_integrated', j, i), tot)

    with open(out_fn, 'wb') as fh:
        pickle.dump(res, fh)


def close(a, b):
    if a == b: return True
    if math.isnan(a) and math.isnan(b): return True
    return abs(a - b) <= RTOL * max(abs(a), abs(b))


def main():
    if len(sys.argv) == 4 and sys.argv[1] == '--worker':
        worker(sys.argv[2], sys.argv[3])
        return 0
    if len(sys.argv) != 3:
        print(__doc__)
        return 2

    import numpy as np
    outs = []
    with tempfile.TemporaryDirectory() as tmp:
        procs = []
        for k, root in enumerate(sys.argv[1:3]):
            out_fn = os.path.join(tmp, 'res{}.pkl'.format(k))
            env = dict(os.environ)
            env.pop('PYTHONPATH', None)
            env['PYTHONDONTWRITEBYTECODE'] = '1'
            procs.append((subprocess.Popen([
                sys.executable,
                os.path.abspath(__file__), '--worker',
                os.path.abspath(root), out_fn
            ],
                                           env=env,
                                           cwd=tmp), out_fn))
        for proc, out_fn in procs:
            if proc.wait() != 0:
                print('worker failed with exit code', proc.returncode)
                return 1
            with open(out_fn, 'rb') as fh:
                outs.append(pickle.load(fh))

    res_a, res_b = outs
    if len(res_a) != len(res_b):
        print('different number of results', len(res_a), len(res_b))
        return 1

    n_bitwise, n_close, n_bad = 0, 0, 0
    for (lab_a, kind_a, val_a), (lab_b, kind_b, val_b) in zip(res_a, res_b):
        ok = True
        if lab_a != lab_b or kind_a != kind_b:
            ok = False
        elif kind_a == 'none':
            n_bitwise += 1
        elif kind_a == 'array':
            if val_a == val_b:
                n_bitwise += 1
            elif val_a[:2] != val_b[:2]:
                ok = False
            else:
                arr_a = np.frombuffer(val_a[2], dtype=val_a[0])
                arr_b = np.frombuffer(val_b[2], dtype=val_b[0])
                if all(close(p, q) for p, q in zip(arr_a, arr_b)):
                    n_close += 1
                else:
                    ok = False
        else:
            if val_a == val_b or (math.isnan(val_a) and math.isnan(val_b)):
                n_bitwise += 1
            elif close(val_a, val_b):
                n_close += 1
            else:
                ok = False
        if not ok:
            n_bad += 1
            if n_bad <= 20:
                print('MISMATCH', lab_a, kind_a, val_a if kind_a != 'array'
                      else '<array>', '|', lab_b, kind_b,
                      val_b if kind_b != 'array' else '<array>')

    print('focus: {}; compared {} results: {} bitwise identical, '
          '{} within {} relative, {} different'.format(FOCUS, len(res_a),
                                                       n_bitwise, n_close,
                                                       RTOL, n_bad))
    return 0 if n_bad == 0 else 1


if __name__ == '__main__':
    sys.exit(main())
