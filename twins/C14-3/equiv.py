#!/usr/bin/env python
"""Equivalence check for property C14 (Slobodeckij seminorm quadratures).

Usage:  python equiv.py <repo_root_A> <repo_root_B>

Each repository root is imported in its own subprocess (``--worker``), the
Slobodeckij routines of src/norms.py (and the quadrature schemes they are built
from) are exercised on a battery of intervals, polynomials, smooth / non-smooth
functions, straight, cornered and curved parametrisations, and every result
is dumped as the hexadecimal representation of the float.  The driver compares
the two dumps: bitwise first, otherwise to 1e-13 relative.  Exit status 0 iff
everything agrees (including the kind of exception raised on invalid input).

Refactoring under test (k=3, medium): seminorm_h_1_2 uses a guard clause with
early return for gamma=None, drops the aliases x/xy and hoists n and 2*h**2.
"""
import json
import math
import subprocess
import sys

RTOL = 1e-13


# --------------------------------------------------------------------------
# Worker: runs inside one repository root.
# --------------------------------------------------------------------------
def worker(root):
    sys.path.insert(0, root)
    sys.dont_write_bytecode = True
    import numpy as np
    from src import norms, quadrature
    from src.norms import Slobodeckij
    from src.parametrization import circle, line

    out = {}

    def rec(key, thunk):
        assert key not in out, key
        try:
            val = thunk()
        except Exception as e:  # the *kind* of failure is part of behaviour
            out[key] = 'EXC:' + type(e).__name__
            return
        arr = np.asarray(val)
        if np.iscomplexobj(arr):
            arr = np.array([arr.real, arr.imag])
        arr = np.asarray(arr, dtype=float)
        out[key] = [str(arr.shape)] + [float(v).hex() for v in arr.ravel()]

    # ---- the 1D / 2D schemes that the seminorms are built from ------------
    for N in range(1, 24, 2):
        s = quadrature.gauss_sqrtinv_quadrature_scheme(N)
        rec('sqrtinv/%d/p' % N, lambda: s.points)
        rec('sqrtinv/%d/w' % N, lambda: s.weights)
    for N in range(1, 22, 2):
        s = quadrature.gauss_quadrature_scheme(N)
        rec('leg/%d/p' % N, lambda: s.points)
        rec('leg/%d/w' % N, lambda: s.weights)
    for N in range(0, 22):
        s = quadrature.gauss_x_quadrature_scheme(N)
        rec('gx/%d/p' % N, lambda: s.points)
        rec('gx/%d/w' % N, lambda: s.weights)
    for (n1, n2) in [(1, 1), (3, 5), (5, 3), (7, 7)]:
        p = quadrature.ProductScheme2D(
            quadrature.gauss_sqrtinv_quadrature_scheme(n1),
            quadrature.gauss_quadrature_scheme(n2))
        rec('prod/%d/%d/p' % (n1, n2), lambda: p.points)
        rec('prod/%d/%d/w' % (n1, n2), lambda: p.weights)
        rec('prod/%d/%d/int' % (n1, n2), lambda: p.integrate(
            lambda x: np.cos(x[0]) * x[1]**2, -1., 2., 0.5, 3.))
    rec('bad/leg_even', lambda: quadrature.gauss_quadrature_scheme(4).points)
    rec('bad/sqrtinv_even',
        lambda: quadrature.gauss_sqrtinv_quadrature_scheme(4).points)
    rec('bad/sqrtinv_big',
        lambda: quadrature.gauss_sqrtinv_quadrature_scheme(25).points)
    rec('bad/gx_big', lambda: quadrature.gauss_x_quadrature_scheme(22).points)

    # ---- public state of the Slobodeckij object ---------------------------
    for (n14, n12) in [(1, None), (3, None), (5, 9), (9, 5), (11, None),
                       (21, None), (23, 21), (7, 13)]:
        S = Slobodeckij(n14) if n12 is None else Slobodeckij(n14, n12)
        tag = 'state/%s/%s/' % (n14, n12)
        rec(tag + 'sqrtinv.p', lambda: S.gauss_sqrtinv.points)
        rec(tag + 'sqrtinv.w', lambda: S.gauss_sqrtinv.weights)
        rec(tag + 'leg.p', lambda: S.gauss_leg.points)
        rec(tag + 'leg.w', lambda: S.gauss_leg.weights)
        rec(tag + 'gx.p', lambda: S.gauss_x.points)
        rec(tag + 'gx.w', lambda: S.gauss_x.weights)
        rec(tag + 'semi_1_4_xy', lambda: S.semi_1_4_xy)
        rec(tag + 'semi_1_4_weights', lambda: S.semi_1_4_weights)
        rec(tag + 'semi_1_2_xy', lambda: S.semi_1_2_xy)
        rec(tag + 'semi_1_2_weights', lambda: S.semi_1_2_weights)
        rec(tag + 'pw.p', lambda: S.semi_1_2_pw.points)
        rec(tag + 'pw.w', lambda: S.semi_1_2_pw.weights)
    rec('bad/slobo_even', lambda: Slobodeckij(4).semi_1_4_xy)
    rec('bad/slobo_big', lambda: Slobodeckij(23).semi_1_4_xy)

    # ---- functions ---------------------------------------------------------
    def poly(coeffs):
        c = np.array(coeffs, dtype=float)
        return lambda x: np.polyval(c, x)

    rng = np.random.RandomState(20240914)
    intervals = [(0., 2.), (-2., 2.), (0.3, 0.7), (1e-3, 5.), (-7.25, -1.5),
                 (100., 100.5), (0., 1.)]
    scalar_fs = {
        'one': lambda x: np.ones_like(x),
        'c': lambda x: 0 * x + 3.75,
        'id': lambda x: x,
        'cos': np.cos,
        'sqrtabs': lambda x: np.sqrt(np.abs(x)),
        'exp': lambda x: np.exp(-0.3 * x),
        'list': lambda x: [float(v)**2 for v in x],
    }

    # H^{1/4}
    for N in range(1, 24, 2):
        S = Slobodeckij(N, 1)
        polys = {
            'p%d' % d: poly(rng.uniform(-2, 2, size=d + 1))
            for d in range(0, N // 2 + 2)
        }
        for iv, (a, b) in enumerate(intervals):
            for name, f in list(scalar_fs.items()) + list(polys.items()):
                rec('h14/%d/%d/%s' % (N, iv, name),
                    lambda: S.seminorm_h_1_4(f, a, b))
        # scaling / translation companions
        f = polys['p%d' % (N // 2)]
        rec('h14/%d/scale' % N,
            lambda: S.seminorm_h_1_4(lambda x: -2.5 * f(x), 0.25, 1.75))
        rec('h14/%d/shift' % N,
            lambda: S.seminorm_h_1_4(lambda x: f(x - 3.), 3.25, 4.75))
    rec('h14/int_args', lambda: Slobodeckij(5).seminorm_h_1_4(np.cos, 0, 2))
    rec('h14/neg_len', lambda: Slobodeckij(5).seminorm_h_1_4(np.cos, 2., 0.))
    rec('h14/scalar_f', lambda: Slobodeckij(5).seminorm_h_1_4(
        lambda x: 1.0, 0., 2.))
    rec('h14/scalar_f_N1', lambda: Slobodeckij(1).seminorm_h_1_4(
        lambda x: 1.0, 0., 2.))

    # H^{1/2}, flat
    for N in range(1, 22, 2):
        S = Slobodeckij(1, N)
        polys = {
            'p%d' % d: poly(rng.uniform(-2, 2, size=d + 1))
            for d in range(0, N // 2 + 2)
        }
        for iv, (a, b) in enumerate(intervals):
            for name, f in list(scalar_fs.items()) + list(polys.items()):
                rec('h12/%d/%d/%s' % (N, iv, name),
                    lambda: S.seminorm_h_1_2(f, a, b))
                rec('h12kw/%d/%d/%s' % (N, iv, name),
                    lambda: S.seminorm_h_1_2(f, a, b, gamma=None))
        f = polys['p%d' % (N // 2)]
        rec('h12/%d/scale' % N,
            lambda: S.seminorm_h_1_2(lambda x: -2.5 * f(x), 0.25, 1.75))
        rec('h12/%d/shift' % N,
            lambda: S.seminorm_h_1_2(lambda x: f(x - 3.), 3.25, 4.75))
    rec('h12/int_args', lambda: Slobodeckij(5).seminorm_h_1_2(np.cos, -1, 2))
    rec('h12/scalar_f', lambda: Slobodeckij(5).seminorm_h_1_2(
        lambda x: 1.0, 0., 2.))
    rec('h12/scalar_f_N1', lambda: Slobodeckij(1).seminorm_h_1_2(
        lambda x: 1.0, 0., 2.))

    # H^{1/2}, with a parametrisation
    def arc(x_hat):  # non arc-length ellipse piece
        return np.vstack([2 * np.cos(x_hat), np.sin(0.5 * x_hat)])

    gammas = {
        'ex': line(np.array([0., 0.]), np.array([1., 0.]))[0],
        'ey': line(np.array([0., 0.]), np.array([0., 1.]))[0],
        'shift': line(np.array([1., 1.]), np.array([4., 1.]))[0],
        'diag': line(np.array([0., 0.]), np.array([1., 1.]))[0],
        '345': line(np.array([-1., 2.]), np.array([2., 6.]), x_start=0.5)[0],
        'circle': circle,
        'arc': arc,
    }
    param_fs = {
        'one': lambda x_hat, g: np.ones_like(x_hat),
        'id': lambda x_hat, g: x_hat,
        'cos': lambda x_hat, g: np.cos(x_hat),
        'x0': lambda x_hat, g: g(x_hat)[0],
        'sincos': lambda x_hat, g: np.sin(np.pi * g(x_hat)[0]) * np.cos(
            np.pi * g(x_hat)[1]),
        'quad': lambda x_hat, g: g(x_hat)[0]**2 - 0.5 * g(x_hat)[0] * g(x_hat)[
            1] + x_hat,
        'list': lambda x_hat, g: [float(v) for v in g(x_hat)[1]],
    }
    for N in (1, 3, 5, 9, 13, 17, 21):
        S = Slobodeckij(3, N)
        for gname, g in gammas.items():
            for iv, (a, b) in enumerate([(0., 1.), (-2., 2.), (0.5, 0.75),
                                         (1., 3.5)]):
                for fname, f in param_fs.items():
                    rec('h12g/%d/%s/%d/%s' % (N, gname, iv, fname),
                        lambda: S.seminorm_h_1_2(f, a, b, g))
                    if iv == 0:
                        rec('h12gkw/%d/%s/%d/%s' % (N, gname, iv, fname),
                            lambda: S.seminorm_h_1_2(f, a, b, gamma=g))

    # H^{1/2}, two pieces meeting in a corner.
    def corner(p0, p1, p2):
        g1, l1 = line(np.array(p0, dtype=float), np.array(p1, dtype=float),
                      x_start=0)
        g2, l2 = line(np.array(p1, dtype=float), np.array(p2, dtype=float),
                      x_start=l1)
        return g1, 0., l1, g2, l1, l1 + l2

    corners = {
        'right': corner([0, 0], [1, 0], [1, 1]),
        'left': corner([1, 1], [1, 0], [0, 0]),
        'long': corner([0, 0], [2, 0], [2, 3]),
        'straight': corner([0, 0], [1, 0], [3, 0]),
        'reflex': corner([0, 1], [0, 0], [4, 3]),
        'pyth': corner([0, 0], [3, 4], [3, 0]),
        'offset': corner([-2, 5], [-2, 1], [-5, 1]),
    }
    for N in (1, 3, 5, 9, 13, 17, 21):
        S = Slobodeckij(1, N)
        for cname, (g1, a1, b1, g2, a2, b2) in corners.items():
            for fname, f in param_fs.items():
                rec('pw/%d/%s/%s' % (N, cname, fname),
                    lambda: S.seminorm_h_1_2_pw(f, a1, b1, g1, a2, b2, g2))
            # sub-intervals touching the corner
            rec('pw/%d/%s/sub' % (N, cname), lambda: S.seminorm_h_1_2_pw(
                param_fs['quad'], a1 + 0.25 * (b1 - a1), b1, g1, a2, a2 + 0.5 *
                (b2 - a2), g2))
    S = Slobodeckij(5)
    g1, a1, b1, g2, a2, b2 = corners['right']
    f = param_fs['x0']
    rec('pw/bad/same_gamma',
        lambda: S.seminorm_h_1_2_pw(f, a1, b1, g1, a2, b2, g1))
    rec('pw/bad/not_touching',
        lambda: S.seminorm_h_1_2_pw(f, a1, 0.5 * b1, g1, a2, b2, g2))
    rec('pw/bad/empty_1',
        lambda: S.seminorm_h_1_2_pw(f, b1, b1, g1, a2, b2, g2))
    rec('pw/bad/empty_2',
        lambda: S.seminorm_h_1_2_pw(f, a1, b1, g1, a2, a2, g2))
    rec('pw/bad/gamma_none',
        lambda: S.seminorm_h_1_2_pw(f, a1, b1, None, a2, b2, g2))

    # ---- the way the error estimator drives the routines -------------------
    def residual(t, x_hat, x):
        return np.exp(-t) * np.sin(x_hat) + t * x_hat**2

    S = Slobodeckij(7, 9)
    for i, t in enumerate([0., 0.3, 1.1]):
        rec('est/h12/%d' % i, lambda: S.seminorm_h_1_2(
            lambda x_hat, x: residual(np.repeat(t, len(x_hat)), x_hat, x), 0.,
            0.5, g1))
        rec('est/pw/%d' % i, lambda: S.seminorm_h_1_2_pw(
            lambda x_hat, x: residual(np.repeat(t, len(x_hat)), x_hat, x), 0.5,
            b1, g1, a2, a2 + 0.25, g2))
    for i, xh in enumerate([0.1, 0.9, 1.7]):
        rec('est/h14/%d' % i, lambda: S.seminorm_h_1_4(
            lambda t: residual(t, np.repeat(xh, len(t)), g1), 0.25, 0.5))

    json.dump(out, sys.stdout)


# --------------------------------------------------------------------------
# Driver.
# --------------------------------------------------------------------------
def run(root):
    res = subprocess.run([sys.executable, __file__, '--worker', root],
                         stdout=subprocess.PIPE,
                         stderr=subprocess.PIPE,
                         universal_newlines=True)
    if res.returncode != 0:
        sys.stderr.write(res.stderr)
        raise SystemExit('worker failed for %s' % root)
    return json.loads(res.stdout)


def close(x, y):
    if x == y or (math.isnan(x) and math.isnan(y)):
        return True
    if math.isinf(x) or math.isinf(y) or math.isnan(x) or math.isnan(y):
        return False
    return abs(x - y) <= RTOL * max(abs(x), abs(y))


def main():
    if len(sys.argv) == 3 and sys.argv[1] == '--worker':
        worker(sys.argv[2])
        return 0
    if len(sys.argv) != 3:
        print(__doc__)
        return 2
    A, B = run(sys.argv[1]), run(sys.argv[2])
    bad = []
    n_bit = n_tol = n_exc = 0
    if sorted(A) != sorted(B):
        bad.append('key sets differ')
    for key in sorted(set(A) & set(B)):
        va, vb = A[key], B[key]
        if isinstance(va, str) or isinstance(vb, str):
            if va != vb:
                bad.append('%s: %s vs %s' % (key, va, vb))
            else:
                n_exc += 1
            continue
        if va == vb:
            n_bit += 1
            continue
        if va[0] != vb[0] or len(va) != len(vb):
            bad.append('%s: shapes %s vs %s' % (key, va[0], vb[0]))
            continue
        fa = [float.fromhex(v) for v in va[1:]]
        fb = [float.fromhex(v) for v in vb[1:]]
        if all(close(x, y) for x, y in zip(fa, fb)):
            n_tol += 1
        else:
            worst = max(
                abs(x - y) / max(abs(x), abs(y), 1e-300)
                for x, y in zip(fa, fb))
            bad.append('%s: differs, worst rel %.3e' % (key, worst))
    print('%d records: %d bitwise identical, %d within %g relative, '
          '%d identical exceptions, %d MISMATCHES' %
          (len(A), n_bit, n_tol, RTOL, n_exc, len(bad)))
    for line_ in bad[:40]:
        print('  ' + line_)
    return 1 if bad else 0


if __name__ == '__main__':
    sys.exit(main())
