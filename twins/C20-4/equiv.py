"""Equivalence check for refactorings of the C20 anchors.

Refactoring 4: mesh.Prolongate uses an extracted ancestor lookup helper and
comprehensions instead of the explicit loop; locals renamed.

Usage: python equiv.py <repo_root_A> <repo_root_B>

Each root is imported in its own subprocess (worker mode).  The worker
exercises DummyElement.uniform_refinement, HierarchicalErrorEstimator.estimate,
HH2ErrorEstimator.estimate and mesh.Prolongate on a collection of meshes,
curves and data (both with a deterministic stand-in for the single layer
operator and with the real SingleLayerOperator) and dumps all observed
numbers as hex floats.  The driver exits 0 iff both dumps agree: bitwise, or
else to 1e-13 relative.
"""
import json
import os
import subprocess
import sys
import tempfile

RTOL = 1e-13


# --------------------------------------------------------------------------
# Worker: runs inside one repository root.
# --------------------------------------------------------------------------
def worker(root, out_fn):
    import contextlib
    import io
    import random

    sys.path.insert(0, root)
    os.chdir(root)
    import numpy as np

    from src import h_h2_error_estimator as hh2_mod
    from src import hierarchical_error_estimator as hier_mod
    from src import mesh as mesh_mod
    from src.mesh import MeshParametrized, Prolongate
    from src.parametrization import (Circle, LShape, PiSquare, UnitInterval,
                                     UnitSquare)
    from src.single_layer import SingleLayerOperator

    DummyElement = hier_mod.DummyElement
    HierarchicalErrorEstimator = hier_mod.HierarchicalErrorEstimator
    HH2ErrorEstimator = hh2_mod.HH2ErrorEstimator

    def enc(obj):
        """ Encodes nested data, floats as hex strings tagged with 'f:'. """
        if isinstance(obj, np.ndarray):
            return {
                'shape': list(obj.shape),
                'dtype': str(obj.dtype),
                'data': [enc(v) for v in obj.ravel().tolist()]
            }
        if isinstance(obj, (list, tuple)):
            return [enc(v) for v in obj]
        if isinstance(obj, dict):
            return {str(k): enc(v) for k, v in obj.items()}
        if isinstance(obj, (bool, str)) or obj is None:
            return obj
        if isinstance(obj, (int, np.integer)):
            return int(obj)
        if isinstance(obj, (float, np.floating)):
            return 'f:' + float(obj).hex()
        # Fractions and friends.
        return 'f:' + float(obj).hex()

    def make_mesh(curve, seed, n_refine, uniform=0):
        mesh = MeshParametrized(curve())
        for _ in range(uniform):
            mesh.uniform_refine()
        rnd = random.Random(seed)
        for _ in range(n_refine):
            elem = rnd.choice(list(mesh.leaf_elements))
            mesh.refine_axis(elem, rnd.random() < 0.5)
        return mesh

    class StubSL:
        """ Deterministic symmetric positive definite stand-in for V. """
        def __init__(self, width):
            self.width = width
            self.calls = []

        @staticmethod
        def _geometry(elems):
            t0 = np.array([float(e.time_interval[0]) for e in elems])
            t1 = np.array([float(e.time_interval[1]) for e in elems])
            x0 = np.array([float(e.space_interval[0]) for e in elems])
            x1 = np.array([float(e.space_interval[1]) for e in elems])
            return (t0 + t1) / 2, (x0 + x1) / 2, (t1 - t0) * (x1 - x0)

        def bilform_matrix(self,
                           elems_test=None,
                           elems_trial=None,
                           use_mp=False):
            self.calls.append((len(elems_test), len(elems_trial),
                               bool(use_mp)))
            ct, cx, area = self._geometry(elems_test)
            dt, dx, brea = self._geometry(elems_trial)
            DT = ct[:, None] - dt[None, :]
            DX = cx[:, None] - dx[None, :]
            A = area[:, None] * brea[None, :]
            mat = A * np.exp(-(DT * DT + DX * DX) / self.width**2)
            mat = mat + 1e-2 * A * ((DT == 0) & (DX == 0))
            return mat

    class StubM0:
        def __init__(self):
            self.calls = []

        def linform_vector(self, elems=None, use_mp=False):
            self.calls.append((len(elems), bool(use_mp)))
            return np.array([
                0.3 * float(e.h_t) * float(e.h_x) *
                np.cos(3 * float(e.time_interval[0]) +
                       float(e.space_interval[1])) for e in elems
            ])

    def g_area(elems):
        rhs = np.zeros(shape=len(elems))
        for i, elem in enumerate(elems):
            rhs[i] = elem.h_t * elem.h_x
        return rhs

    def g_wave(elems):
        return np.array([
            float(e.h_t) * float(e.h_x) *
            np.sin(1 + 2 * float(e.time_interval[1]) +
                   5 * float(e.space_interval[0])) for e in elems
        ])

    class FakeTime:
        """ Deterministic clock, makes the printed timing reproducible. """
        def __init__(self):
            self.now = 0.0

        def time(self):
            self.now += 0.125
            return self.now

    def run(fn):
        """ Runs fn, capturing stdout and exceptions. """
        buf = io.StringIO()
        try:
            with contextlib.redirect_stdout(buf):
                val = fn()
            return {'val': enc(val), 'out': buf.getvalue()}
        except Exception as exc:  # noqa
            return {'exc': type(exc).__name__, 'out': buf.getvalue()}

    import time as _time
    _t0 = _time.time()

    def stamp(label):
        if os.environ.get('EQUIV_VERBOSE'):
            sys.stderr.write('[{}] {}: {:.1f}s\n'.format(
                os.path.basename(root), label, _time.time() - _t0))

    def run_hh2(hh2, elems, Phi, *args):
        """ Runs the h-h/2 estimator under a deterministic clock. """
        old_time = hh2_mod.time
        hh2_mod.time = FakeTime()
        try:
            return run(lambda: hh2.estimate(elems, Phi, *args))
        finally:
            hh2_mod.time = old_time

    results = {}
    curves = [('UnitSquare', UnitSquare), ('Circle', Circle),
              ('LShape', LShape), ('PiSquare', PiSquare),
              ('UnitInterval', UnitInterval)]

    # ------------------------------------------------------------------
    # 1. Virtual quartering.
    # ------------------------------------------------------------------
    for name, curve in curves:
        for seed, n_refine, uniform in [(1, 0, 0), (2, 7, 0), (3, 25, 1)]:
            mesh = make_mesh(curve, seed, n_refine, uniform)
            elems = list(mesh.leaf_elements)
            refinement = DummyElement.uniform_refinement(elems)
            gammas = []
            vtx_ids = {}
            rec = []
            assert len(refinement) == len(elems)
            for elem, children in zip(elems, refinement):
                rec_children = []
                for child in children:
                    for v in child.vertices:
                        vtx_ids.setdefault(id(v), len(vtx_ids))
                    if child.gamma_space not in gammas:
                        gammas.append(child.gamma_space)
                    rec_children.append({
                        'type': type(child).__name__,
                        'vertices': [(v.t, v.x, v.idx)
                                     for v in child.vertices],
                        'vertex_sharing':
                        [vtx_ids[id(v)] for v in child.vertices],
                        'time_interval': child.time_interval,
                        'space_interval': child.space_interval,
                        'h_t': child.h_t,
                        'h_x': child.h_x,
                        'h_types':
                        [type(child.h_t).__name__,
                         type(child.h_x).__name__],
                        'repr': repr(child),
                        'gamma_is_parent': child.gamma_space is
                        elem.gamma_space,
                        'gamma_idx': gammas.index(child.gamma_space),
                    })
                rec.append(rec_children)
            results['quarter/{}/{}'.format(name, seed)] = enc({
                'type': type(refinement).__name__,
                'inner_types': [type(c).__name__ for c in refinement],
                'children': rec
            })
    results['quarter/empty'] = enc(DummyElement.uniform_refinement([]))

    stamp('quartering')
    # ------------------------------------------------------------------
    # 2. Estimators with the stand-in operator.
    # ------------------------------------------------------------------
    data_variants = [('g', g_area, False), ('gM0', g_wave, True),
                     ('M0', None, True), ('none', None, False)]
    for name, curve in curves:
        for seed, n_refine, uniform in [(11, 0, 0), (12, 9, 0), (13, 14, 1),
                                         (14, 40, 0)]:
            mesh = make_mesh(curve, seed, n_refine, uniform)
            elems = list(mesh.leaf_elements)
            N = len(elems)
            rnd = np.random.RandomState(seed)
            for dname, g, use_M0 in data_variants:
                for width in [0.4, 1.3]:
                    key = '{}/{}/{}/{}'.format(name, seed, dname, width)
                    SL = StubSL(width)
                    mat = SL.bilform_matrix(elems, elems)
                    rhs = np.zeros(N)
                    if g: rhs += g(elems)
                    if use_M0: rhs -= StubM0().linform_vector(elems)
                    Phis = [('galerkin', np.linalg.solve(mat, rhs)),
                            ('random', rnd.standard_normal(N)),
                            ('zero', np.zeros(N))]
                    for pname, Phi in Phis:
                        # Hierarchical estimator.
                        SL = StubSL(width)
                        M0 = StubM0() if use_M0 else None
                        hier = HierarchicalErrorEstimator(SL=SL, M0=M0, g=g)
                        res = run(lambda: hier.estimate(elems, Phi))
                        res['SL_calls'] = enc(SL.calls)
                        res['M0_calls'] = enc(M0.calls if M0 else None)
                        results['hier/{}/{}'.format(key, pname)] = res

                        # h-h/2 estimator.
                        for use_mp in [False, True]:
                            SL = StubSL(width)
                            M0 = StubM0() if use_M0 else None
                            hh2 = HH2ErrorEstimator(SL=SL,
                                                    M0=M0,
                                                    g=g,
                                                    use_mp=use_mp)
                            res = run_hh2(hh2, elems, Phi)
                            res['SL_calls'] = enc(SL.calls)
                            res['M0_calls'] = enc(M0.calls if M0 else None)
                            results['hh2/{}/{}/{}'.format(key, pname,
                                                          use_mp)] = res

    # Positional construction and the optional `problem` argument.
    mesh = make_mesh(UnitSquare, 21, 6)
    elems = list(mesh.leaf_elements)
    Phi = np.linspace(-1, 1, len(elems))
    results['hier/positional'] = run(lambda: HierarchicalErrorEstimator(
        StubSL(0.7), StubM0(), g_wave).estimate(elems, Phi, 'problem'))
    results['hh2/positional'] = run_hh2(
        HH2ErrorEstimator(StubSL(0.7), StubM0(), g_wave, False), elems, Phi,
        'problem')
    results['hh2/default_mp'] = enc(HH2ErrorEstimator(StubSL(0.7)).use_mp)
    # A density that already solves the refined problem: estimator vanishes.
    children = DummyElement.uniform_refinement(elems)
    fine = [c for cs in children for c in cs]
    SL = StubSL(0.7)
    ones = np.ones(len(elems))
    rhs_fine = SL.bilform_matrix(fine, fine) @ np.repeat(ones, 4)
    results['hh2/vanishes'] = run_hh2(
        HH2ErrorEstimator(SL=SL, g=lambda es: rhs_fine.copy(), use_mp=False),
        elems, ones)

    stamp('stub estimators')
    # ------------------------------------------------------------------
    # 3. Estimators with the real single layer operator.
    # ------------------------------------------------------------------
    for name, curve, seed, n_refine, pw_exact in [
        ('UnitSquare', UnitSquare, 5, 10, False),
        ('UnitSquare', UnitSquare, 6, 8, True),
        ('Circle', Circle, 7, 6, False),
        ('LShape', LShape, 8, 4, False),
        ('PiSquare', PiSquare, 9, 3, True),
        ('UnitInterval', UnitInterval, 10, 5, False),
    ]:
        mesh = make_mesh(curve, seed, n_refine)
        SL = SingleLayerOperator(mesh, pw_exact=pw_exact)
        elems = list(mesh.leaf_elements)
        with contextlib.redirect_stdout(io.StringIO()):
            mat = SL.bilform_matrix(elems, elems, use_mp=False)
        Phi = np.linalg.solve(mat, g_area(elems))
        key = '{}/{}/{}'.format(name, seed, pw_exact)
        hier = HierarchicalErrorEstimator(SL=SL, g=g_area)
        res = run(lambda: hier.estimate(elems, Phi))
        res.pop('out')  # Contains wall-clock timings.
        results['real/hier/' + key] = res
        stamp('real hier ' + key)
        hh2 = HH2ErrorEstimator(SL=SL, g=g_area, use_mp=False)
        res = run(lambda: hh2.estimate(elems, Phi))
        res.pop('out')
        results['real/hh2/' + key] = res
        res = run(lambda: hh2.estimate(elems, np.sin(np.arange(len(elems)))))
        res.pop('out')
        results['real/hh2_sin/' + key] = res
        stamp('real hh2 ' + key)

    stamp('real estimators')
    # ------------------------------------------------------------------
    # 4. Prolongation between nested meshes.
    # ------------------------------------------------------------------
    for name, curve in curves:
        for seed, n_pre, n_post in [(31, 0, 0), (32, 0, 9), (33, 6, 30),
                                    (34, 12, 3)]:
            mesh = make_mesh(curve, seed, n_pre)
            coarse = list(mesh.leaf_elements)
            rnd = random.Random(seed)
            for _ in range(n_post):
                elem = rnd.choice(list(mesh.leaf_elements))
                mesh.refine_axis(elem, rnd.random() < 0.5)
            fine = list(mesh.leaf_elements)
            shuffled = list(fine)
            rnd.shuffle(shuffled)
            nprnd = np.random.RandomState(seed)
            vec = nprnd.standard_normal(len(coarse))
            key = 'prolong/{}/{}'.format(name, seed)
            for vname, v in [('float', vec),
                             ('int', np.arange(len(coarse))),
                             ('list', [float(x) for x in vec])]:
                results[key + '/' + vname] = run(
                    lambda: Prolongate(v, coarse, fine))
                results[key + '/shuffled/' + vname] = run(
                    lambda: Prolongate(v, coarse, shuffled))
                results[key + '/subset/' + vname] = run(
                    lambda: Prolongate(v, coarse, shuffled[:3]))
            results[key + '/identity'] = run(
                lambda: Prolongate(vec, coarse, coarse))
            results[key + '/empty'] = run(lambda: Prolongate(vec, coarse, []))
            # Not nested: fine elements without an ancestor in `coarse`.
            results[key + '/not_nested'] = run(
                lambda: Prolongate(nprnd.standard_normal(len(fine)), fine,
                                   coarse))
            # Two-step prolongation.
            for _ in range(5):
                elem = rnd.choice(list(mesh.leaf_elements))
                mesh.refine_axis(elem, rnd.random() < 0.5)
            finer = list(mesh.leaf_elements)
            results[key + '/two_step'] = run(lambda: Prolongate(
                Prolongate(vec, coarse, fine), fine, finer))
            results[key + '/direct'] = run(
                lambda: Prolongate(vec, coarse, finer))

    stamp('prolongation')
    with open(out_fn, 'w') as f:
        json.dump(results, f)


# --------------------------------------------------------------------------
# Driver.
# --------------------------------------------------------------------------
def compare(a, b, path, problems, stats):
    if type(a) != type(b):
        problems.append('{}: type {} vs {}'.format(path, type(a), type(b)))
    elif isinstance(a, dict):
        if a.keys() != b.keys():
            problems.append('{}: keys differ: {}'.format(
                path, sorted(set(a.keys()) ^ set(b.keys()))))
            return
        for k in a:
            compare(a[k], b[k], path + '/' + k, problems, stats)
    elif isinstance(a, list):
        if len(a) != len(b):
            problems.append('{}: length {} vs {}'.format(
                path, len(a), len(b)))
            return
        for i, (x, y) in enumerate(zip(a, b)):
            compare(x, y, '{}[{}]'.format(path, i), problems, stats)
    elif isinstance(a, str) and a.startswith('f:') and b.startswith('f:'):
        stats['floats'] += 1
        if a == b: return
        x, y = float.fromhex(a[2:]), float.fromhex(b[2:])
        if x != x and y != y: return
        stats['not_bitwise'] += 1
        if not abs(x - y) <= RTOL * max(abs(x), abs(y)):
            problems.append('{}: {!r} vs {!r}'.format(path, x, y))
    elif a != b:
        problems.append('{}: {!r} vs {!r}'.format(path, a, b))


def main():
    if len(sys.argv) == 4 and sys.argv[1] == '--worker':
        worker(os.path.abspath(sys.argv[2]), sys.argv[3])
        return 0
    if len(sys.argv) != 3:
        print(__doc__)
        return 2

    dumps = []
    with tempfile.TemporaryDirectory() as tmp:
        procs = []
        for i, root in enumerate(sys.argv[1:3]):
            out_fn = os.path.join(tmp, 'dump{}.json'.format(i))
            env = dict(os.environ)
            env['PYTHONDONTWRITEBYTECODE'] = '1'
            env.pop('PYTHONPATH', None)
            # Single-threaded BLAS: reproducible and no oversubscription.
            for var in ('OMP_NUM_THREADS', 'OPENBLAS_NUM_THREADS',
                        'MKL_NUM_THREADS'):
                env[var] = '1'
            procs.append((subprocess.Popen([
                sys.executable,
                os.path.abspath(__file__), '--worker',
                os.path.abspath(root), out_fn
            ],
                                           env=env,
                                           cwd=tmp), out_fn, root))
        for proc, out_fn, root in procs:
            if proc.wait() != 0:
                print('worker failed for {}'.format(root))
                return 1
            with open(out_fn) as f:
                dumps.append(json.load(f))

    problems = []
    stats = {'floats': 0, 'not_bitwise': 0}
    compare(dumps[0], dumps[1], '', problems, stats)
    print('compared {} records, {} floats ({} not bitwise equal)'.format(
        len(dumps[0]), stats['floats'], stats['not_bitwise']))
    if problems:
        print('{} MISMATCHES, first ones:'.format(len(problems)))
        for p in problems[:20]:
            print('  ' + p)
        return 1
    print('EQUIVALENT')
    return 0


if __name__ == '__main__':
    sys.exit(main())
