#!/usr/bin/env python
"""Equivalence check for a behaviour-preserving refactoring of src/mesh.py.

Usage: python equiv.py <repo_root_A> <repo_root_B>

Runs the same (seeded) battery of mesh constructions and refinements against
the library found in both roots, each in its own subprocess, serialises the
complete refinement tree / leaf set / vertex list / edge links / gmsh output /
printed messages and exits 0 iff the two serialisations are identical.
"""
import hashlib
import json
import os
import subprocess
import sys

DRIVER = r'''
import contextlib, hashlib, io, json, random, sys
import numpy as np
from src.mesh import Mesh, MeshParametrized, Prolongate, Element, Edge, Vertex
from src.parametrization import Circle, UnitSquare, LShape, UnitInterval, PiSquare

FOCUS = %(focus)r

def fh(v):
    v = float(v)
    return v.hex()

def all_elems(mesh):
    out, stack = [], list(reversed(mesh.roots))
    while stack:
        e = stack.pop()
        out.append(e)
        stack.extend(reversed(e.children))
    return out

def edge_rec(edge, eid):
    nbr = edge.nbr_edge
    return dict(
        v=[edge.vertices[0].idx, edge.vertices[1].idx],
        bd=bool(edge.on_boundary), gl=bool(edge.glued),
        elem=None if edge.elem is None else edge.elem.glob_idx,
        nch=len(edge.children),
        ch=[[c.vertices[0].idx, c.vertices[1].idx] for c in edge.children],
        chp=[c.parent is edge for c in edge.children],
        par=None if edge.parent is None else
            [edge.parent.vertices[0].idx, edge.parent.vertices[1].idx],
        nbr=None if nbr is None else dict(
            v=[nbr.vertices[0].idx, nbr.vertices[1].idx],
            elem=None if nbr.elem is None else nbr.elem.glob_idx,
            back=nbr.nbr_edge is edge),
        space_edge=bool(edge.space_edge), time_edge=bool(edge.time_edge))

def dump(mesh):
    full = dump_full(mesh)
    blob = json.dumps(full, sort_keys=True).encode()
    return dict(md5=hashlib.md5(blob).hexdigest(), N=full['N'],
                nleaves=len(full['leaves']), nverts=len(full['verts']),
                gmsh_md5=full['md5'])

def dump_full(mesh):
    gammas = None
    if hasattr(mesh, 'gamma_space'):
        gammas = {id(g): i for i, g in enumerate(mesh.gamma_space.pw_gamma)}
    elems = all_elems(mesh)
    recs = []
    for e in elems:
        chain, p = [], e.parent
        while p is not None:
            chain.append(p.glob_idx)
            p = p.parent
        rec = dict(
            idx=e.glob_idx, lv=list(e.levels), lt=e.level_time,
            ls=e.level_space,
            ti=[fh(x) for x in e.time_interval],
            si=[fh(x) for x in e.space_interval],
            ht=fh(e.h_t), hx=fh(e.h_x),
            c=[fh(e.center.t), fh(e.center.x), e.center.idx],
            vs=[v.idx for v in e.vertices],
            ch=[c.glob_idx for c in e.children],
            chain=chain, rep=repr(e) if not e.children else repr(e.edges[0]),
            gam=None if (gammas is None or e.gamma_space is None) else
                gammas[id(e.gamma_space)],
            edges=[edge_rec(ed, i) for i, ed in enumerate(e.edges)],
            axes=[[[ed.vertices[0].idx, ed.vertices[1].idx]
                   for ed in e.edges_axis(ax)] for ax in (0, 1)],
            tup=[type(e.edges).__name__, type(e.levels).__name__,
                 type(e.children).__name__, type(e.vertices).__name__])
        if not e.children:
            rec['nb'] = [[n.glob_idx for n in ed.neighbour_elements()]
                         for ed in e.edges]
        recs.append(rec)
    leaves = list(mesh.leaf_elements)
    return dict(
        gmsh=mesh.gmsh(), md5=mesh.md5(),
        gmsh_data=mesh.gmsh(element_data=[0.5 * i for i in range(len(leaves))]),
        gmsh_gamma=mesh.gmsh(use_gamma=True) if gammas is not None else None,
        N=mesh.N_elements, glue=bool(mesh.glue_space),
        verts=[[v.idx, fh(v.t), fh(v.x), repr(v), list(map(fh, v.tx))]
               for v in mesh.vertices],
        leaves=[e.glob_idx for e in leaves],
        leafvals=[v for v in mesh.leaf_elements.values()],
        leaftype=type(mesh.leaf_elements).__name__,
        roots=[e.glob_idx for e in mesh.roots],
        elems=recs)

def mk_meshes():
    yield 'default', lambda: Mesh()
    yield 'glued', lambda: Mesh(glue_space=True)
    yield 'open3x1', lambda: Mesh(glue_space=False,
                                  initial_space_mesh=[0., 0.3, 0.8, 1.])
    yield 'glued3x3', lambda: Mesh(glue_space=True,
                                   initial_space_mesh=[0., 0.3, 0.8, 1.],
                                   initial_time_mesh=[0, 0.5, 0.7, 1])
    yield 'open2x4', lambda: Mesh(glue_space=False,
                                  initial_space_mesh=[0., 1.5, 4.],
                                  initial_time_mesh=[0, 0.1, 0.35, 1.2, 2.])
    yield 'glued4x2', lambda: Mesh(glue_space=True,
                                   initial_space_mesh=[0, 1, 2, 3, 4],
                                   initial_time_mesh=[0, 1, 3])
    yield 'circle', lambda: MeshParametrized(Circle())
    yield 'circleT', lambda: MeshParametrized(
        Circle(), initial_time_mesh=[0, 0.25, 1.])
    yield 'square', lambda: MeshParametrized(UnitSquare())
    yield 'pisquare', lambda: MeshParametrized(
        PiSquare(), initial_time_mesh=[0., 1., 2.])
    yield 'lshape', lambda: MeshParametrized(LShape())
    yield 'interval', lambda: MeshParametrized(UnitInterval())
    yield 'interval3', lambda: MeshParametrized(
        UnitInterval(), initial_space_mesh=[0, 0.2, 0.5, 1.],
        initial_time_mesh=[0, 0.5, 1.5])

def try_call(f):
    try:
        r = f()
        return ['ok', None if r is None else [c.glob_idx for c in r]]
    except Exception as exc:
        return ['exc', type(exc).__name__]

def run():
    res = {}
    out = io.StringIO()
    with contextlib.redirect_stdout(out):
        for name, mk in mk_meshes():
            # 0. the initial mesh.
            mesh = mk()
            res[name + '/init'] = dump(mesh)

            # 1. random single / combined bisections, dumping along the way.
            for seed in range(3):
                rng = random.Random(1000 * seed + len(name))
                mesh = mk()
                log = []
                for step in range(40):
                    leaves = list(mesh.leaf_elements)
                    el = leaves[rng.randrange(len(leaves))]
                    op = rng.randrange(4)
                    if op == 0:
                        r = mesh.refine_time(el)
                    elif op == 1:
                        r = mesh.refine_space(el)
                    elif op == 2:
                        r = mesh.refine(el)
                    else:
                        r = mesh.refine_axis(el, rng.random() < 0.5)
                    log.append([el.glob_idx, op, [c.glob_idx for c in r],
                                type(r).__name__])
                    if step in (0, 3, 12):
                        res['%%s/rand%%d/step%%d' %% (name, seed, step)] = dump(mesh)
                res['%%s/rand%%d/log' %% (name, seed)] = log
                res['%%s/rand%%d/final' %% (name, seed)] = dump(mesh)

                # Prolongation from a coarse to the current leaf set.
                coarse = list(mesh.leaf_elements)
                vec = np.array([rng.random() for _ in coarse])
                mesh.uniform_refine_space()
                fine = list(mesh.leaf_elements)
                res['%%s/rand%%d/prol' %% (name, seed)] = [
                    fh(v) for v in Prolongate(vec, coarse, fine)]
                res['%%s/rand%%d/unifspace' %% (name, seed)] = dump(mesh)

                # Misuse: refining a non-leaf, invalid axis.
                res['%%s/rand%%d/misuse' %% (name, seed)] = [
                    try_call(lambda: mesh.refine_axis(coarse[0], 0)),
                    try_call(lambda: mesh.refine_axis(coarse[-1], 1)),
                    try_call(lambda: mesh.refine_axis(fine[0], 2)),
                    try_call(lambda: mesh.refine_axis(fine[0], -1)),
                ]
                res['%%s/rand%%d/aftermisuse' %% (name, seed)] = dump(mesh)

            # 2. uniform refinement.
            mesh = mk()
            for k in range(2):
                mesh.uniform_refine()
                res['%%s/unif%%d' %% (name, k)] = dump(mesh)

            # 3. Dorfler marking, isotropic and anisotropic.
            for theta in (0.3, 0.9):
                rng = np.random.RandomState(int(theta * 100))
                mesh = mk()
                for k in range(4):
                    eta = rng.rand(len(mesh.leaf_elements))**3
                    mesh.dorfler_refine_isotropic(eta, theta)
                res['%%s/iso%%s' %% (name, theta)] = dump(mesh)
                mesh = mk()
                for k in range(5):
                    eta = rng.rand(len(mesh.leaf_elements), 2)**3
                    mesh.dorfler_refine_anisotropic(eta, theta)
                res['%%s/aniso%%s' %% (name, theta)] = dump(mesh)

            # 4. grading.
            for sigma, K in ((2, 4), (1, 2), (1.5, 3)):
                mesh = mk()
                mesh.uniform_refine()
                rng = random.Random(7)
                for step in range(10):
                    leaves = list(mesh.leaf_elements)
                    mesh.refine_axis(leaves[rng.randrange(len(leaves))],
                                     rng.randrange(2))
                mesh.refine_grading(sigma=sigma, K=K)
                res['%%s/grade%%s_%%s' %% (name, sigma, K)] = dump(mesh)

            # 5. distances in the embedded space.
            if name in ('circle', 'square', 'lshape', 'interval3'):
                mesh = mk()
                mesh.uniform_refine()
                leaves = list(mesh.leaf_elements)
                def dist(a, b):
                    try:
                        return fh(a.dist(b))
                    except Exception as exc:
                        return type(exc).__name__
                res[name + '/dist'] = [dist(a, b) for a in leaves[:6]
                                       for b in leaves[-6:]]

        # 6. direct use of the low-level classes.
        a, b, c, d = (Vertex(0., 0., 0), Vertex(0., 2., 1), Vertex(1., 2., 2),
                      Vertex(1., 0., 3))
        edges = [Edge((a, b)), Edge((b, c)), Edge((c, d)), Edge((d, a))]
        elem = Element(edges, (0, 0))
        elem.glob_idx = 0
        m = Vertex(0., 1., 4)
        ch = edges[0].bisect(m)
        ch2 = edges[0].bisect(Vertex(0., 1., 5))
        res['lowlevel'] = dict(
            ch=[repr(x) for x in ch], same=ch is ch2, t=type(ch).__name__,
            par=[x.parent is edges[0] for x in ch],
            nb=[try_call(lambda e=e: e.neighbour_elements()) for e in edges],
            bad=[try_call(lambda: Element(edges, (0, 0))),
                 try_call(lambda: Element([Edge((a, b)), Edge((b, c)),
                                           Edge((c, d)), Edge((d, a))],
                                          (1, 0))),
                 try_call(lambda: Element([Edge((a, d)), Edge((d, c)),
                                           Edge((c, b)), Edge((b, a))],
                                          (0, 0))),
                 try_call(lambda: Element([Edge((a, b)), Edge((b, c)),
                                           Edge((c, d))], (0, 0))),
                 try_call(lambda: elem.edges_axis(2))])
    res['stdout'] = out.getvalue()
    res['focus'] = FOCUS
    return res

json.dump(run(), sys.stdout, sort_keys=True)
'''

FOCUS = "refactoring 1"


def start(root):
    root = os.path.abspath(root)
    env = dict(os.environ)
    env['PYTHONPATH'] = root
    env['PYTHONDONTWRITEBYTECODE'] = '1'
    env['PYTHONHASHSEED'] = '0'
    return root, subprocess.Popen(
        [sys.executable, '-c', DRIVER % dict(focus=FOCUS)],
        cwd=root, env=env, stdout=subprocess.PIPE, stderr=subprocess.PIPE)


def finish(root, proc):
    try:
        stdout, stderr = proc.communicate(timeout=110)
    except subprocess.TimeoutExpired:
        proc.kill()
        raise SystemExit('driver timed out in {}'.format(root))
    if proc.returncode != 0:
        sys.stderr.write(stderr.decode()[-4000:])
        raise SystemExit('driver failed in {}'.format(root))
    return json.loads(stdout.decode())


def main():
    if len(sys.argv) != 3:
        raise SystemExit(__doc__)
    procs = [start(sys.argv[1]), start(sys.argv[2])]
    res_a, res_b = [finish(*p) for p in procs]
    bad = 0
    for key in sorted(set(res_a) | set(res_b)):
        if res_a.get(key) != res_b.get(key):
            bad += 1
            print('MISMATCH in scenario', key)
    digest = hashlib.md5(
        json.dumps(res_a, sort_keys=True).encode()).hexdigest()
    print('{} scenarios compared, {} mismatches, digest(A)={}'.format(
        len(res_a), bad, digest))
    sys.exit(1 if bad else 0)


if __name__ == '__main__':
    main()
