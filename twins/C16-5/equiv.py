#!/usr/bin/env python
"""Equivalence check for refactorings of src/initial_mesh.py (property C16).

Usage:  python equiv.py <repo_root_A> <repo_root_B>

The script starts one subprocess per repository root.  Each subprocess imports
`src.initial_mesh` from its root, drives the domain quadtree through a large
set of refinements (boundary-targeted refinement of every dyadic sub-segment
of every unit boundary piece in both orientations, repeated boundary
refinement on one mesh, corner refinement, seeded random refinement, uniform
refinement, error paths) and prints one line per scenario containing an exact
(float.hex based) dump of the observable state.  The parent compares the two
transcripts line by line and exits 0 iff they are identical.
"""
import hashlib
import os
import subprocess
import sys

DRIVER = r'''
import hashlib, itertools, random, sys
root = sys.argv[1]
sys.path.insert(0, root)
import numpy as np
from src import initial_mesh as im
assert im.__file__.startswith(root), (im.__file__, root)


def h(x):
    """Exact textual form of a coordinate (int or float)."""
    if isinstance(x, (float, np.floating)):
        return float(x).hex()
    return repr(x)


def vkey(v):
    return (float(v.x), float(v.y))


def out(tag, *payload):
    s = repr(payload)
    print(tag, hashlib.sha256(s.encode()).hexdigest(), len(s), s[:160])


def snapshot(mesh):
    """Full dump, including creation order (vertex idx, element order)."""
    eidx = {e: i for i, e in enumerate(mesh.elements)}
    verts = [(h(v.x), h(v.y), v.idx, h(v.xy[0]), h(v.xy[1]),
              v.xy_np.shape, h(v.xy_np[0, 0]), h(v.xy_np[1, 0]))
             for v in mesh.vertices]
    elems = [(tuple(v.idx for v in e.vertices), e.level,
              None if e.parent is None else eidx[e.parent], h(e.diam),
              repr(e)) for e in mesh.elements]
    leaves = sorted(eidx[e] for e in mesh.leaf_elements)
    nbrs = sorted(((a.idx, b.idx), eidx[e]) for (a, b), e in mesh.nbrs.items())
    pedge = sorted(((a.idx, b.idx), (c.idx, d.idx))
                   for (a, b), (c, d) in mesh.parent_edge.items())
    bis = sorted(((a.idx, b.idx), m.idx)
                 for (a, b), m in mesh._InitialMesh__bisect_edge.items())
    return verts, elems, leaves, nbrs, pedge, bis


def canonical(mesh):
    """Dump that does not depend on the creation order."""
    verts = sorted((h(v.x), h(v.y)) for v in mesh.vertices)
    idx_ok = all(v.idx == i for i, v in enumerate(mesh.vertices))
    elems = sorted((tuple((h(v.x), h(v.y)) for v in e.vertices), e.level,
                    None if e.parent is None else
                    tuple((h(v.x), h(v.y)) for v in e.parent.vertices))
                   for e in mesh.elements)
    leaves = sorted((tuple((h(v.x), h(v.y)) for v in e.vertices), e.level)
                    for e in mesh.leaf_elements)
    nbrs = sorted(((h(a.x), h(a.y), h(b.x), h(b.y)),
                   tuple((h(v.x), h(v.y)) for v in e.vertices))
                  for (a, b), e in mesh.nbrs.items())
    pedge = sorted(((h(a.x), h(a.y), h(b.x), h(b.y)),
                    (h(c.x), h(c.y), h(d.x), h(d.y)))
                   for (a, b), (c, d) in mesh.parent_edge.items())
    gm = mesh.gmsh().split("\n")
    n_nodes = len(mesh.vertices)
    head, nodes, rest = gm[:5], gm[5:5 + n_nodes], gm[5 + n_nodes:]
    # node lines "idx x y 0" and element lines "i 3 2 0 0 a b c d": replace
    # the creation-order dependent indices by coordinates and sort.
    node_of = {l.split(" ")[0]: " ".join(l.split(" ")[1:]) for l in nodes}
    assert len(node_of) == n_nodes
    el_lines = sorted((" ".join(l.split(" ")[1:5]),
                       tuple(node_of[t] for t in l.split(" ")[5:]))
                      for l in rest[3:-2])
    gm_c = (head, sorted(node_of.values()), rest[:3], el_lines, rest[-2:])
    return verts, idx_ok, elems, leaves, nbrs, pedge, gm_c


def check_property(mesh, area):
    """Tiling, 2:1 balance, unique vertices; returned as a tuple of facts."""
    leaves = list(mesh.leaf_elements)
    tot = sum(float(e.diam)**2 for e in leaves)
    uniq = len(set(vkey(v) for v in mesh.vertices)) == len(mesh.vertices)
    # 2:1 balance via the edge -> cell map.
    edge_owner = {}
    for e in leaves:
        for a, b in e.edges:
            edge_owner[(a, b)] = e
    bal = True
    for e in leaves:
        for a, b in e.edges:
            cur, lvl = (a, b), e.level
            # climb the edge ancestry until an opposite leaf edge is found
            steps = 0
            while True:
                opp = (cur[1], cur[0])
                if opp in edge_owner:
                    if abs(edge_owner[opp].level - e.level) > 1:
                        bal = False
                    if steps > 1:
                        bal = False
                    break
                if cur not in mesh.parent_edge:
                    break
                cur = mesh.parent_edge[cur]
                steps += 1
    return (abs(tot - area) < 1e-12 * max(1.0, area), uniq, bal)


def elem_probe(e):
    g = e.gamma()
    pts = [(0, 0), (1, 0), (1, 1), (0, 1), (0.5, 0.5), (0.25, 0.75)]
    gam = [tuple(h(z) for z in np.asarray(g(x, z)).flatten()) for x, z in pts]
    c = np.asarray(g(0.5, 0.5)).flatten()
    cont = (bool(e.contains(c)), bool(e.contains((c[0] + 10 * float(e.diam), c[1]))),
            bool(e.contains((e.vertices[2].x, e.vertices[2].y))))
    conn = [tuple(w.idx for w in e.connected_to_vertex(v)) for v in e.vertices]
    edges = [(a.idx, b.idx) for a, b in e.edges]
    return (tuple(v.idx for v in e.vertices), e.level, h(e.diam), repr(e),
            gam, cont, conn, edges)


def guarded(fn):
    try:
        return ("ok", fn())
    except BaseException as exc:  # noqa
        return ("exc", type(exc).__name__)


# --------------------------------------------------------------------------
# Geometry of the three stock domains: unit boundary pieces (corner, corner).
SQ = [((0, 0), (1, 0)), ((1, 0), (1, 1)), ((1, 1), (0, 1)), ((0, 1), (0, 0))]
PI = np.pi
LS = [((0, 0), (0, -1)), ((0, -1), (1, -1)), ((1, -1), (1, 0)),
      ((1, 0), (1, 1)), ((1, 1), (0, 1)), ((0, 1), (-1, 1)),
      ((-1, 1), (-1, 0)), ((-1, 0), (0, 0))]
DOMAINS = [("unit", im.UnitSquare, im.UnitSquareBoundaryRefined, SQ, 1.0, 1.0),
           ("pi", im.PiSquare, im.PiSquareBoundaryRefined, SQ, PI, PI * PI),
           ("lshape", im.LShape, im.LShapeBoundaryRefined, LS, 1.0, 3.0)]


def seg_point(p, q, s, scale):
    return (scale * (p[0] + (q[0] - p[0]) * s), scale * (p[1] + (q[1] - p[1]) * s))


def as_input(pt, style):
    if style == 0:
        return pt
    if style == 1:
        return np.array(pt, dtype=float).reshape(2, 1)
    if style == 2:
        return np.array(pt, dtype=float)
    return list(pt)


# 1. Every dyadic sub-segment of every unit piece, both orientations.
count = 0
for name, ctor, ctor_ref, pieces, scale, area in DOMAINS:
    maxlvl = 5 if name != "lshape" else 4
    for ip, (p, q) in enumerate(pieces):
        for lvl in range(maxlvl + 1):
            for k in range(2**lvl):
                s0, s1 = k / 2**lvl, (k + 1) / 2**lvl
                for orient in (0, 1):
                    a = seg_point(p, q, s0, scale)
                    b = seg_point(p, q, s1, scale)
                    if orient:
                        a, b = b, a
                    style = count % 4
                    count += 1
                    mesh = ctor()
                    elem = mesh.refine_msh_bdr(as_input(a, style),
                                               as_input(b, style))
                    va = mesh.vertex_from_coords(as_input(a, (style + 1) % 4))
                    vb = mesh.vertex_from_coords(as_input(b, (style + 2) % 4))
                    vn = mesh.vertex_from_coords((a[0] + 0.123, a[1] - 0.0456))
                    on_edge = [(x.idx, y.idx) for x, y in elem.edges
                               if {x, y} == {va, vb}]
                    n_with_edge = sum(
                        1 for e in mesh.leaf_elements for x, y in e.edges
                        if {x, y} == {va, vb})
                    out("seg %s %d %d %d %d" % (name, ip, lvl, k, orient),
                        snapshot(mesh), canonical(mesh), elem_probe(elem),
                        va.idx, vb.idx, vn, on_edge, n_with_edge,
                        elem in mesh.leaf_elements,
                        check_property(mesh, area))
                    # The convenience constructors must agree as well.
                    if lvl in (0, 3) and k == 2**lvl - 1:
                        m2 = ctor_ref(a, b)
                        out("ctor %s %d %d %d" % (name, ip, lvl, orient),
                            snapshot(m2))

# 1b. A few deep segments (level 6..9) on each domain.
for name, ctor, ctor_ref, pieces, scale, area in DOMAINS:
    for ip, (p, q) in enumerate(pieces):
        for lvl, k in ((6, 37), (7, 0), (8, 255), (9, 300)):
            a = seg_point(p, q, k / 2**lvl, scale)
            b = seg_point(p, q, (k + 1) / 2**lvl, scale)
            if (ip + lvl) % 2:
                a, b = b, a
            mesh = ctor()
            elem = mesh.refine_msh_bdr(a, b)
            va = mesh.vertex_from_coords(a)
            vb = mesh.vertex_from_coords(b)
            out("deep %s %d %d %d" % (name, ip, lvl, k), snapshot(mesh),
                elem_probe(elem), va.idx, vb.idx, check_property(mesh, area))

# 1c. Non-default eps.
for eps in (0.0, 1e-14, 1e-6, 1e-2):
    for name, ctor, ctor_ref, pieces, scale, area in DOMAINS:
        p, q = pieces[1]
        a = seg_point(p, q, 5 / 16, scale)
        b = seg_point(p, q, 6 / 16, scale)
        mesh = ctor()
        r = guarded(lambda: elem_probe(mesh.refine_msh_bdr(b, a, eps)))
        r2 = guarded(lambda: elem_probe(ctor().refine_msh_bdr(a, b, eps=eps)))
        out("eps %s %r" % (name, eps), r, r2, snapshot(mesh))

# 1d. Coarse tolerances: several siblings "contain" the segment, so that the
#     choice of the element to descend into (the last one found) matters.
for eps in (0.05, 0.1, 0.3):
    for name, ctor, ctor_ref, pieces, scale, area in DOMAINS:
        for ip in (0, 1, len(pieces) - 1):
            p, q = pieces[ip]
            for lvl in (3, 4):
                log = []
                for k in range(2**lvl):
                    a = seg_point(p, q, k / 2**lvl, scale)
                    b = seg_point(p, q, (k + 1) / 2**lvl, scale)
                    mesh = ctor()
                    r = guarded(lambda: elem_probe(mesh.refine_msh_bdr(a, b, eps)))
                    log.append((r, snapshot(mesh)))
                out("coarse-eps %s %r %d %d" % (name, eps, ip, lvl), log)

# 2. Repeated boundary refinement on one and the same mesh.
for name, ctor, ctor_ref, pieces, scale, area in DOMAINS:
    for seed in range(4):
        rng = random.Random(1000 + seed)
        mesh = ctor()
        log = []
        for it in range(12):
            p, q = pieces[rng.randrange(len(pieces))]
            lvl = rng.randrange(0, 6)
            k = rng.randrange(2**lvl)
            a = seg_point(p, q, k / 2**lvl, scale)
            b = seg_point(p, q, (k + 1) / 2**lvl, scale)
            if rng.random() < 0.5:
                a, b = b, a
            r = guarded(lambda: elem_probe(mesh.refine_msh_bdr(a, b)))
            log.append((r, len(mesh.vertices), len(mesh.leaf_elements)))
        out("multi %s %d" % (name, seed), log, snapshot(mesh), canonical(mesh),
            check_property(mesh, area))

# 3. Corner refinement as in the unit tests, element picked by coordinates.
for name, ctor, ctor_ref, pieces, scale, area in DOMAINS:
    for corner in ((0, 0), (scale * 1, scale * 1)):
        mesh = ctor()
        sizes = []
        for k in range(9):
            cands = sorted((e for e in mesh.leaf_elements
                            if vkey(e.vertices[0]) == tuple(map(float, corner))
                            or vkey(e.vertices[2]) == tuple(map(float, corner))),
                           key=lambda e: (e.level, vkey(e.vertices[0])))
            ch = mesh.refine(cands[-1])
            sizes.append((len(mesh.leaf_elements), [elem_probe(c) for c in ch]))
        out("corner %s %r" % (name, corner), sizes, snapshot(mesh),
            canonical(mesh), check_property(mesh, area))

# 4. Seeded random refinement (leaf picked from a canonically sorted list).
for name, ctor, ctor_ref, pieces, scale, area in DOMAINS:
    for seed in range(5):
        rng = random.Random(77 + seed)
        mesh = ctor()
        for it in range(40):
            leaves = sorted(mesh.leaf_elements,
                            key=lambda e: (vkey(e.vertices[0]), e.level))
            mesh.refine(leaves[rng.randrange(len(leaves))])
        out("random %s %d" % (name, seed), snapshot(mesh), canonical(mesh),
            check_property(mesh, area))

# 5. Uniform refinement (set iteration order => compare canonical dumps),
#    followed by boundary refinement and an interior refinement.
for name, ctor, ctor_ref, pieces, scale, area in DOMAINS:
    mesh = ctor()
    for k in range(4):
        mesh.uniform_refine()
        out("uniform %s %d" % (name, k), canonical(mesh),
            check_property(mesh, area))
    p, q = pieces[2]
    a = seg_point(p, q, 11 / 64, scale)
    b = seg_point(p, q, 12 / 64, scale)
    elem = mesh.refine_msh_bdr(a, b)
    out("uniform+bdr %s" % name, canonical(mesh),
        tuple((h(v.x), h(v.y)) for v in elem.vertices), elem.level,
        h(mesh.vertex_from_coords(a).x), h(mesh.vertex_from_coords(b).y),
        check_property(mesh, area))

# 6. bisect_edge in isolation, including its error path.
for name, ctor, ctor_ref, pieces, scale, area in DOMAINS:
    mesh = ctor()
    e = mesh.elements[0]
    a, b = e.edges[0]
    m1 = mesh.bisect_edge(a, b)
    m2 = mesh.bisect_edge(b, a)
    r = guarded(lambda: mesh.bisect_edge(a, b))
    r2 = guarded(lambda: mesh.bisect_edge(b, a))
    c, d = e.edges[1]
    m3 = mesh.bisect_edge(d, c)
    out("bisect %s" % name, m1 is m2, m1.idx, m3.idx, r, r2, repr(m1),
        repr(m3), snapshot(mesh))

# 7. Error paths of refine_msh_bdr / vertex_from_coords.
for name, ctor, ctor_ref, pieces, scale, area in DOMAINS:
    res = []
    # not axis parallel
    res.append(guarded(lambda: ctor().refine_msh_bdr((0, 0), (scale, scale))))
    # interior segment that lies on no edge
    res.append(guarded(lambda: ctor().refine_msh_bdr((0.3 * scale, 0.3 * scale),
                                                     (0.3 * scale, 0.6 * scale))))
    # degenerate segments
    res.append(guarded(lambda: ctor().refine_msh_bdr((0.5 * scale, 0.5 * scale),
                                                     (0.5 * scale, 0.5 * scale))))
    res.append(guarded(lambda: ctor().refine_msh_bdr((scale, 0.5 * scale),
                                                     (scale, 0.5 * scale))))
    # segment sticking out of the domain
    res.append(guarded(lambda: ctor().refine_msh_bdr((scale, 0.5 * scale),
                                                     (scale, 1.5 * scale))))
    # refining a non-leaf twice
    def twice():
        m = ctor()
        e = m.elements[0]
        m.refine(e)
        m.refine(e)
    res.append(guarded(twice))
    # duplicated vertex -> assertion in vertex_from_coords
    def dup():
        m = im.InitialMesh(vertices=[(0, 0), (1, 0), (1, 1), (0, 1), (1, 1)],
                           elements=[(0, 1, 2, 3)])
        return m.vertex_from_coords((1, 1))
    res.append(guarded(dup))
    m = ctor()
    res.append([None if v is None else v.idx for v in
                (m.vertex_from_coords(x) for x in
                 [(0, 0), (scale, 0), (scale * (1 + 1e-12), 0), (0.5, 0.5),
                  np.array([[0.0], [scale]]), [scale, scale]])])
    out("errors %s" % name, res)

print("DONE")
'''


def run(root):
    root = os.path.abspath(root)
    env = dict(os.environ)
    env["PYTHONDONTWRITEBYTECODE"] = "1"
    env.pop("PYTHONPATH", None)
    proc = subprocess.run([sys.executable, "-c", DRIVER, root],
                          stdout=subprocess.PIPE,
                          stderr=subprocess.PIPE,
                          cwd="/",
                          env=env,
                          timeout=110,
                          universal_newlines=True)
    if proc.returncode != 0:
        sys.stderr.write(proc.stderr[-4000:])
        raise SystemExit("driver failed for %s (rc=%d)" %
                         (root, proc.returncode))
    return proc.stdout.splitlines()


def main():
    if len(sys.argv) != 3:
        raise SystemExit(__doc__)
    out_a = run(sys.argv[1])
    out_b = run(sys.argv[2])
    if not out_a or out_a[-1] != "DONE" or not out_b or out_b[-1] != "DONE":
        raise SystemExit("driver did not finish")
    bad = 0
    if len(out_a) != len(out_b):
        print("different number of scenarios: %d vs %d" %
              (len(out_a), len(out_b)))
        bad += 1
    for la, lb in zip(out_a, out_b):
        if la != lb:
            bad += 1
            if bad < 10:
                print("MISMATCH\n  A: %s\n  B: %s" % (la[:300], lb[:300]))
    digest = hashlib.sha256("\n".join(out_a).encode()).hexdigest()
    print("%d scenarios compared, %d mismatches, digest(A)=%s" %
          (len(out_a) - 1, bad, digest[:16]))
    sys.exit(1 if bad else 0)


if __name__ == "__main__":
    main()
