"""Equivalence check for a refactoring of src/single_layer.py (property C04).

Usage: python equiv.py <repo_root_A> <repo_root_B>

Each root is imported in its own subprocess (worker mode), a fixed battery of
inputs is pushed through the single layer operator and the raw float64 results
are pickled.  The parent compares the two result dictionaries; exits 0 iff all
records agree (bitwise, or to 1e-13 relative for the few FOCUS keys that allow
floating point reassociation).
"""
import os
import pickle
import subprocess
import sys
import tempfile

# Keys (prefixes) that should be compared bitwise.  Everything is bitwise unless
# listed in LOOSE_PREFIXES.
LOOSE_PREFIXES = ()
REL_TOL = 1e-13


def worker(root, out_fn):
    sys.path.insert(0, root)
    os.chdir(root)
    import numpy as np
    import importlib
    sl = importlib.import_module('src.single_layer')
    mesh_mod = importlib.import_module('src.mesh')
    par = importlib.import_module('src.parametrization')
    ee = importlib.import_module('src.error_estimator')
    assert os.path.realpath(sl.__file__).startswith(os.path.realpath(root))

    SingleLayerOperator = sl.SingleLayerOperator
    MeshParametrized = mesh_mod.MeshParametrized
    res = {}

    def rec(key, val):
        assert key not in res, key
        res[key] = np.array(val, dtype=float)

    def sorted_elems(mesh):
        return sorted(mesh.leaf_elements,
                      key=lambda e: (e.time_interval, e.space_interval))

    # ---- 1. Kernels --------------------------------------------------------
    rng = np.random.RandomState(1234)
    xs_2d = rng.uniform(-2, 2, size=(2, 17))
    xs_2d_small = rng.uniform(-1e-3, 1e-3, size=(2, 9))
    xs_scalar = [0.2, 1.0, 3.0, 1e-4, 25.0]
    intervals = [(0, 1), (1.5, 3), (2, 5), (3, 5), (4, 5), (1, 5), (1, 1.5),
                 (1, 2), (0, 0.5), (0.25, 0.5), (0.5, 0.75), (0., 0.125),
                 (0.125, 0.25), (0.5, 1.0), (0.75, 1)]
    for (a, b) in intervals:
        for (c, d) in intervals:
            G = sl.double_time_integrated_kernel(a, b, c, d)
            rec(('dtik', a, b, c, d, '2d'), G(xs_2d))
            rec(('dtik', a, b, c, d, '2ds'), G(xs_2d_small))
            rec(('dtik', a, b, c, d, 'sc'), [G(x) for x in xs_scalar])
            rec(('dtik', a, b, c, d, 'col'), G(xs_2d[:, 3:4]))
    for t in [0.0, 0.1, 0.25, 0.5, 0.7, 1.0, 1.5, 3.0, 4.5, 7.0]:
        for (a, b) in intervals:
            G = sl.time_integrated_kernel(t, a, b)
            rec(('tik', t, a, b, '2d'), G(xs_2d))
            rec(('tik', t, a, b, 'sc'), [G(np.float64(x)) for x in xs_scalar])
        for s in [0.0, 0.3, 1.0, 2.0]:
            rec(('g', t, s), [sl.g(t, s)(np.float64(x)) for x in xs_scalar])
            rec(('f', t, s), [sl.f(t, s)(np.float64(x)) for x in xs_scalar])
            rec(('g2', t, s), sl.g(t, s)(xs_2d) * np.ones(17))
            rec(('kernel', t, s), [sl.kernel(float(t - s), x) for x in xs_scalar])

    # ---- 2. Meshes ---------------------------------------------------------
    def build_meshes():
        meshes = {}

        m = MeshParametrized(par.UnitSquare())
        meshes['square0'] = m

        m = MeshParametrized(par.UnitSquare())
        m.uniform_refine()
        m.uniform_refine()
        meshes['square2'] = m

        m = MeshParametrized(par.UnitSquare())
        m.uniform_refine()
        for k in range(3):
            elems = sorted_elems(m)
            m.refine_time(elems[0])
            m.refine_space(elems[-1])
            m.refine(elems[len(elems) // 2])
        meshes['square_adapt'] = m

        m = MeshParametrized(par.UnitSquare(), initial_time_mesh=[0, 0.5, 2])
        m.uniform_refine_space()
        elems = sorted_elems(m)
        m.refine_time(elems[1])
        m.refine_time(elems[-2])
        meshes['square_t'] = m

        m = MeshParametrized(par.Circle())
        m.uniform_refine()
        elems = sorted_elems(m)
        m.refine_time(elems[2])
        m.refine_space(elems[5])
        meshes['circle'] = m

        m = MeshParametrized(par.LShape())
        m.uniform_refine()
        elems = sorted_elems(m)
        m.refine(elems[3])
        m.refine_time(elems[7])
        meshes['lshape'] = m

        m = MeshParametrized(par.PiSquare(), initial_time_mesh=[0, 1, 3])
        elems = sorted_elems(m)
        m.refine_time(elems[0])
        m.refine_space(elems[1])
        meshes['pisquare'] = m

        m = MeshParametrized(par.UnitInterval())
        m.uniform_refine()
        m.uniform_refine()
        elems = sorted_elems(m)
        m.refine_space(elems[0])
        m.refine_time(elems[-1])
        meshes['interval'] = m
        return meshes

    meshes = build_meshes()

    for name, mesh in meshes.items():
        elems = sorted_elems(mesh)
        N = len(elems)
        rec(('mesh', name, 'N'), [N])
        gamma = mesh.gamma_space
        L = gamma.gamma_length
        for pw_exact in (False, True):
            SL = SingleLayerOperator(mesh, pw_exact=pw_exact)
            tag = (name, pw_exact)

            # Square matrix through the public entry (large or small path).
            mat = SL.bilform_matrix(elems)
            rec(('mat', ) + tag, mat)
            # Rectangular matrices: small path (N*M<100) and generic path.
            rec(('mat_rect_small', ) + tag,
                SL.bilform_matrix(elems[:5], elems[N - 7:]))
            rec(('mat_rect', ) + tag,
                SL.bilform_matrix(elems[::2], elems[1::2][::-1]))
            # Default arguments (order of leaf_elements is not deterministic
            # across processes, so only an order independent summary).
            mat_def = SL.bilform_matrix()
            rec(('mat_default_sorted', ) + tag, np.sort(mat_def.ravel()))
            rec(('mat_default_shape', ) + tag, mat_def.shape)

            # Single entries, both argument orders.
            idx = rng.randint(0, N, size=(12, 2))
            rec(('bil', ) + tag, [[
                SL.bilform(elems[i], elems[j]),
                SL.bilform(elems[j], elems[i])
            ] for i, j in idx])
            rec(('bil_type', ) + tag,
                [[isinstance(SL.bilform(elems[i], elems[j]), int)]
                 for i, j in idx])

            # The column worker of the multiprocessing path, called inline.
            sl.__dict__['__SL'] = SL
            sl.__dict__['__elems_test'] = elems
            sl.__dict__['__elems_trial'] = elems[::-1]
            cols = [sl.MP_SL_matrix_col(j) for j in range(0, N, 3)]
            rec(('mpcol', ) + tag, cols)
            rec(('mpcol_dtype', ) + tag,
                [c.dtype == np.float64 and c.shape == (N, ) for c in cols])

            if pw_exact:
                # evaluate / potential do not depend on pw_exact.
                if isinstance(gamma, par.PiecewisePolygon):
                    ts = [0., 0.1, 0.25, 0.3, 0.5, 0.75, 1., 1.7, 3.]
                    vals = []
                    for e in elems[::2]:
                        a, b = e.space_interval
                        # Positions in the local coordinates of the pane.
                        for x in [
                                a, b, 0.5 * (a + b), a + 0.1 * (b - a),
                                a - 0.3, b + 0.2, b + 1e-9, a - 1e-9
                        ]:
                            for t in ts:
                                v = SL.evaluate_exact(e, t, x)
                                vals.append(np.nan if v is None else v)
                    rec(('eval_exact', ) + tag, vals)
                continue

            ts = [0., 0.1, 0.25, 0.3, 0.5, 0.625, 0.75, 1., 1.7, 3.]
            xhats = list(np.linspace(0, L, 9)) + [
                0.3 * L, 0.123 * L, L * (1 - 1e-12), 1e-12
            ]
            for e in elems[::3]:
                a, b = e.space_interval
                xhats += [a, b, 0.5 * (a + b), a + 1e-3 * (b - a), b - 1e-4 * (b - a)]
            xhats = [min(max(float(x), 0.), L) for x in xhats]
            vals = []
            for x_hat in xhats:
                x = gamma.eval(x_hat).reshape(2, 1)
                for t in ts:
                    for e in elems:
                        try:
                            vals.append(SL.evaluate(e, t, x_hat, x))
                        except AssertionError:
                            # Degenerate split of the singular quadrature.
                            vals.append(np.nan)
            rec(('evaluate', ) + tag, vals)
            rec(('evaluate_vec', ) + tag,
                np.sort(np.array([
                    SL.evaluate_vector(t, x_hat) for t in (0.3, 1.0)
                    for x_hat in (0.123 * L, 0.3 * L, 0.77 * L)
                ]),
                        axis=1))

            pts = [
                np.array([[0.5], [0.5]]),
                np.array([[0.3], [0.1]]),
                np.array([[2.0], [-1.0]]),
                np.array([[-0.2], [0.7]])
            ]
            vals = []
            for x in pts:
                for t in ts:
                    for e in elems:
                        vals.append(SL.potential(e, t, x))
            rec(('potential', ) + tag, vals)
            rec(('potential_vec', ) + tag,
                np.sort(np.array(
                    [SL.potential_vector(t, pts[1]) for t in (0.3, 1.0)]),
                        axis=1))

            # rhs_vector (sorted: leaf order).
            rhs = SL.rhs_vector(
                lambda t, xx: np.exp(-t) * (xx[0]**2 + 0.5 * xx[1]))
            rec(('rhs', ) + tag, np.sort(rhs))

    # ---- 2b. Cache path and console messages of bilform_matrix. -----------
    import contextlib
    import io
    import re
    import shutil
    import tempfile as _tf
    msgs = []
    for name in ('square_adapt', 'circle'):
        mesh = meshes[name]
        elems = sorted_elems(mesh)
        cache_dir = _tf.mkdtemp()
        try:
            SL = SingleLayerOperator(mesh, cache_dir=cache_dir)
            for rep in range(2):
                buf = io.StringIO()
                with contextlib.redirect_stdout(buf):
                    mat = SL.bilform_matrix(elems)
                    mat_small = SL.bilform_matrix(elems[:3], elems[4:9])
                rec(('cache_mat', name, rep), mat)
                rec(('cache_mat_small', name, rep), mat_small)
                out = buf.getvalue().replace(cache_dir, '<CACHE>')
                out = re.sub(r'took [0-9.e+-]+s', 'took <T>s', out)
                msgs.append((name, rep, out))
            rec(('cache_files', name), [len(os.listdir(cache_dir))])
            msgs.append((name, 'files', sorted(os.listdir(cache_dir))))
        finally:
            shutil.rmtree(cache_dir, ignore_errors=True)
    res['__messages__'] = msgs

    # ---- 3. The residual in the error estimator, which has its own guard. --
    for name in ('square_adapt', 'circle', 'lshape'):
        mesh = meshes[name]
        elems = sorted_elems(mesh)
        N = len(elems)
        Phi = np.cos(np.arange(N)) + 1.5
        estim = ee.ErrorEstimator(mesh, N_poly=3)
        for exact in (False, True):
            SL = SingleLayerOperator(mesh, pw_exact=exact)
            residual = estim.residual(elems, Phi, SL, SL_exact_eval=exact)
            for e in elems[::4]:
                a, b = e.space_interval
                xh = a + (b - a) * np.array([0.1, 0.5, 0.77, 0.9])
                for tt in ([0.05, 0.3, 0.5, 1.0], [0.26, 0.74, 0.125, 0.9]):
                    rec(('residual', name, exact, e.time_interval,
                         e.space_interval, tuple(tt)),
                        residual(np.array(tt), xh, e.gamma_space))

    with open(out_fn, 'wb') as fh:
        pickle.dump(res, fh)


def compare(res_a, res_b):
    import numpy as np
    ok = True
    if set(res_a) != set(res_b):
        print('DIFFERENT KEYS', set(res_a) ^ set(res_b))
        return False
    n_bitwise = n_loose = 0
    msg_a, msg_b = res_a.pop('__messages__'), res_b.pop('__messages__')
    if msg_a != msg_b:
        ok = False
        print('CONSOLE MESSAGES / CACHE FILE NAMES DIFFER')
        for ma, mb in zip(msg_a, msg_b):
            if ma != mb:
                print(' A:', ma)
                print(' B:', mb)
    for key in res_a:
        va, vb = res_a[key], res_b[key]
        if va.shape != vb.shape:
            print('SHAPE MISMATCH', key, va.shape, vb.shape)
            ok = False
            continue
        loose = any(key[0] == p for p in LOOSE_PREFIXES)
        if loose:
            n_loose += 1
            scale = np.maximum(np.abs(va), np.abs(vb))
            bad = ~((np.abs(va - vb) <= REL_TOL * scale) |
                    (np.isnan(va) & np.isnan(vb)))
            # Exact zeros (causality) must stay exact zeros.
            bad |= (va == 0) != (vb == 0)
        else:
            n_bitwise += 1
            bad = va.view(np.uint64) != vb.view(np.uint64)
            # +0.0 == -0.0 and NaN payloads are not observable differences.
            bad &= ~((va == 0) & (vb == 0))
            bad &= ~(np.isnan(va) & np.isnan(vb))
        if np.any(bad):
            ok = False
            print('MISMATCH', key, 'max abs diff',
                  np.nanmax(np.abs(va - vb)), 'count', int(np.sum(bad)))
    print('compared {} records bitwise, {} to rel {}: {}'.format(
        n_bitwise, n_loose, REL_TOL, 'EQUIVALENT' if ok else 'DIFFERENT'))
    return ok


def main():
    if len(sys.argv) == 4 and sys.argv[1] == '--worker':
        worker(os.path.abspath(sys.argv[2]), sys.argv[3])
        return 0
    if len(sys.argv) != 3:
        print(__doc__)
        return 2
    results = []
    with tempfile.TemporaryDirectory() as tmp:
        procs = []
        for k, root in enumerate(sys.argv[1:3]):
            out_fn = os.path.join(tmp, 'res{}.pkl'.format(k))
            env = dict(os.environ)
            env.pop('PYTHONPATH', None)
            env['PYTHONDONTWRITEBYTECODE'] = '1'
            env['PYTHONHASHSEED'] = '0'
            procs.append((subprocess.Popen([
                sys.executable,
                os.path.abspath(__file__), '--worker',
                os.path.abspath(root), out_fn
            ],
                                           env=env,
                                           stdout=subprocess.DEVNULL), out_fn))
        for proc, out_fn in procs:
            if proc.wait() != 0:
                print('worker failed for', out_fn)
                return 1
            with open(out_fn, 'rb') as fh:
                results.append(pickle.load(fh))
    return 0 if compare(*results) else 1


if __name__ == '__main__':
    sys.exit(main())
